#![no_main]
//! Coverage-guided structured fuzzing of whole histories: bytes -> arbitrary::Unstructured ->
//! (Config, Vec<ConnScript>) -> the same interpreter and history model as the proptest checks.
//! Every rule of the model is active; violations listed in KNOWN_FINDINGS.json are tolerated so a
//! campaign does not rediscover one finding forever.
use libfuzzer_sys::fuzz_target;
use std::sync::OnceLock;
use vharness::runner::{Known, load_known, sig_matches};

static KNOWN: OnceLock<Vec<Known>> = OnceLock::new();

fuzz_target!(|data: &[u8]| {
    let known = KNOWN.get_or_init(load_known);
    let mut u = arbitrary::Unstructured::new(data);
    let Ok(case) = vharness::ugen::case(&mut u) else { return };
    let (viol, _stats, trace) = vharness::props::scen::eval_case(&case);
    if trace.watchdog {
        return;
    }
    let only = std::env::var("VERIF_PROPERTY").ok();
    for v in viol {
        if let Some(o) = &only {
            if v.prop != o.as_str() && v.prop != "PANIC" {
                continue;
            }
        }
        let tolerated = known.iter().any(|k| k.status == "known" && k.property == v.prop && sig_matches(&k.signature, &v.sig));
        if !tolerated {
            eprintln!("VIOLATION {} {}\n  {}", v.prop, v.sig, v.detail);
            eprintln!("REPLAY-JSON: {}", vharness::replay_json("case", v.prop, &v.sig, &case));
            std::process::abort();
        }
    }
});

