#![no_main]
//! Coverage-guided byte fuzzing of the inbound path with the C08 oracle in the target:
//! [selector][chunking][inbound bytes...]. A violation (or any panic inside the client) aborts,
//! so libFuzzer saves the input; saved inputs are replayed by `./check C08 quick` from
//! /verif/corpus/fz_inbound through the stable-toolchain harness.
use libfuzzer_sys::fuzz_target;
use vharness::props::c08;

fuzz_target!(|data: &[u8]| {
    let Some(inp) = c08::input_from_fuzz_bytes(data) else { return };
    if inp.bytes.len() > 600 {
        return;
    }
    let out = c08::eval_any(&inp);
    if let Some(v) = out.violations.first() {
        eprintln!("VIOLATION {} {}\n  {}", v.prop, v.sig, v.detail);
        eprintln!("REPLAY-JSON: {}", vharness::replay_json("c08-input", v.prop, &v.sig, &inp));
        std::process::abort();
    }
});
