import json,sys
d=json.load(open(sys.argv[1]))
i=d['input']
print(i['broker'], {k:v for k,v in i['cfg'].items() if k in('rx','tx','keepalive','downgrade')})
for c in i['conns']:
    print('CONN',c['connect']['handshake'],'keep',c['connect']['keep_session'],{k:v for k,v in c['connect']['props'].items() if v}, c['connect']['io'], c['end'])
    for s in c['steps']: print('   ',json.dumps(s))
for v in d['violations']: print(v['signature'],'\n   ',v['detail'])
