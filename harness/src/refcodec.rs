//! Independent MQTT 5 codec written from the OASIS specification. It shares no code with minimq.
//!
//! * `encode` produces the canonical encoding of any packet (both directions).
//! * `decode` is a strict decoder. Framing problems (bad varint, fields running past the packet,
//!   trailing bytes, truncated fixed header contents) are fatal `Err`s; every other deviation
//!   from the specification is reported as an `Anomaly` next to the decoded packet so that a
//!   monitor can decide which deviations matter for its property.

use serde::{Deserialize, Serialize};

#[derive(Clone, Debug, PartialEq, Eq, Hash, Serialize, Deserialize)]
pub enum Prop {
    PayloadFormat(u8),
    MessageExpiry(u32),
    ContentType(String),
    ResponseTopic(String),
    CorrelationData(Vec<u8>),
    SubscriptionId(u32),
    SessionExpiry(u32),
    AssignedClientId(String),
    ServerKeepAlive(u16),
    AuthMethod(String),
    AuthData(Vec<u8>),
    RequestProblemInfo(u8),
    WillDelay(u32),
    RequestResponseInfo(u8),
    ResponseInfo(String),
    ServerReference(String),
    ReasonString(String),
    ReceiveMaximum(u16),
    TopicAliasMaximum(u16),
    TopicAlias(u16),
    MaximumQoS(u8),
    RetainAvailable(u8),
    UserProperty(String, String),
    MaximumPacketSize(u32),
    WildcardSubAvailable(u8),
    SubIdAvailable(u8),
    SharedSubAvailable(u8),
}

pub const ALL_PROP_IDS: [u8; 27] = [
    0x01, 0x02, 0x03, 0x08, 0x09, 0x0B, 0x11, 0x12, 0x13, 0x15, 0x16, 0x17, 0x18, 0x19, 0x1A, 0x1C,
    0x1F, 0x21, 0x22, 0x23, 0x24, 0x25, 0x26, 0x27, 0x28, 0x29, 0x2A,
];

/// Packet contexts used by the property-legality table.
#[derive(Clone, Copy, Debug, PartialEq, Eq, Hash, Serialize, Deserialize)]
pub enum Ctx {
    Connect,
    ConnAck,
    Publish,
    Will,
    PubAck,
    PubRec,
    PubRel,
    PubComp,
    Subscribe,
    SubAck,
    Unsubscribe,
    UnsubAck,
    Disconnect,
    Auth,
}

impl Prop {
    pub fn id(&self) -> u8 {
        use Prop::*;
        match self {
            PayloadFormat(_) => 0x01,
            MessageExpiry(_) => 0x02,
            ContentType(_) => 0x03,
            ResponseTopic(_) => 0x08,
            CorrelationData(_) => 0x09,
            SubscriptionId(_) => 0x0B,
            SessionExpiry(_) => 0x11,
            AssignedClientId(_) => 0x12,
            ServerKeepAlive(_) => 0x13,
            AuthMethod(_) => 0x15,
            AuthData(_) => 0x16,
            RequestProblemInfo(_) => 0x17,
            WillDelay(_) => 0x18,
            RequestResponseInfo(_) => 0x19,
            ResponseInfo(_) => 0x1A,
            ServerReference(_) => 0x1C,
            ReasonString(_) => 0x1F,
            ReceiveMaximum(_) => 0x21,
            TopicAliasMaximum(_) => 0x22,
            TopicAlias(_) => 0x23,
            MaximumQoS(_) => 0x24,
            RetainAvailable(_) => 0x25,
            UserProperty(_, _) => 0x26,
            MaximumPacketSize(_) => 0x27,
            WildcardSubAvailable(_) => 0x28,
            SubIdAvailable(_) => 0x29,
            SharedSubAvailable(_) => 0x2A,
        }
    }

    /// MQTT 5 section 2.2.2.2, table 2-4.
    pub fn legal_in(id: u8, ctx: Ctx) -> bool {
        use Ctx::*;
        match id {
            0x01 | 0x02 | 0x03 | 0x08 | 0x09 => matches!(ctx, Publish | Will),
            0x0B => matches!(ctx, Publish | Subscribe),
            0x11 => matches!(ctx, Connect | ConnAck | Disconnect),
            0x12 | 0x13 => matches!(ctx, ConnAck),
            0x15 | 0x16 => matches!(ctx, Connect | ConnAck | Auth),
            0x17 | 0x19 => matches!(ctx, Connect),
            0x18 => matches!(ctx, Will),
            0x1A => matches!(ctx, ConnAck),
            0x1C => matches!(ctx, ConnAck | Disconnect),
            0x1F => matches!(
                ctx,
                ConnAck | PubAck | PubRec | PubRel | PubComp | SubAck | UnsubAck | Disconnect | Auth
            ),
            0x21 | 0x22 | 0x27 => matches!(ctx, Connect | ConnAck),
            0x23 => matches!(ctx, Publish),
            0x24 | 0x25 | 0x28 | 0x29 | 0x2A => matches!(ctx, ConnAck),
            0x26 => true,
            _ => false,
        }
    }

    /// Value constraints of the specification.
    pub fn value_legal(&self) -> bool {
        use Prop::*;
        match self {
            PayloadFormat(v) | RequestProblemInfo(v) | RequestResponseInfo(v) | RetainAvailable(v)
            | WildcardSubAvailable(v) | SubIdAvailable(v) | SharedSubAvailable(v) => *v <= 1,
            MaximumQoS(v) => *v <= 1,
            ReceiveMaximum(v) => *v != 0,
            TopicAlias(v) => *v != 0,
            MaximumPacketSize(v) => *v != 0,
            SubscriptionId(v) => (1..=268_435_455).contains(v),
            ContentType(s) | ResponseTopic(s) | AssignedClientId(s) | AuthMethod(s) | ResponseInfo(s)
            | ServerReference(s) | ReasonString(s) => !s.contains('\0'),
            UserProperty(k, v) => !k.contains('\0') && !v.contains('\0'),
            _ => true,
        }
    }

    pub fn may_repeat(id: u8, ctx: Ctx) -> bool {
        id == 0x26 || (id == 0x0B && ctx == Ctx::Publish)
    }

    pub fn encode(&self, out: &mut Vec<u8>) {
        use Prop::*;
        out.push(self.id());
        match self {
            PayloadFormat(v) | RequestProblemInfo(v) | RequestResponseInfo(v) | MaximumQoS(v)
            | RetainAvailable(v) | WildcardSubAvailable(v) | SubIdAvailable(v) | SharedSubAvailable(v) => {
                out.push(*v)
            }
            ServerKeepAlive(v) | ReceiveMaximum(v) | TopicAliasMaximum(v) | TopicAlias(v) => {
                out.extend_from_slice(&v.to_be_bytes())
            }
            MessageExpiry(v) | SessionExpiry(v) | WillDelay(v) | MaximumPacketSize(v) => {
                out.extend_from_slice(&v.to_be_bytes())
            }
            SubscriptionId(v) => put_varint(out, *v),
            ContentType(s) | ResponseTopic(s) | AssignedClientId(s) | AuthMethod(s) | ResponseInfo(s)
            | ServerReference(s) | ReasonString(s) => put_str(out, s),
            CorrelationData(b) | AuthData(b) => put_bin(out, b),
            UserProperty(k, v) => {
                put_str(out, k);
                put_str(out, v);
            }
        }
    }
}

#[derive(Clone, Copy, Debug, PartialEq, Eq, Hash, Serialize, Deserialize)]
pub struct SubOpts {
    pub qos: u8,
    pub no_local: bool,
    pub rap: bool,
    pub retain_handling: u8,
}

#[derive(Clone, Debug, PartialEq, Eq, Hash, Serialize, Deserialize)]
pub struct Will {
    pub qos: u8,
    pub retain: bool,
    pub props: Vec<Prop>,
    pub topic: String,
    pub payload: Vec<u8>,
}

#[derive(Clone, Debug, PartialEq, Eq, Hash, Serialize, Deserialize)]
pub struct Connect {
    pub clean_start: bool,
    pub keep_alive: u16,
    pub props: Vec<Prop>,
    pub client_id: String,
    pub will: Option<Will>,
    pub user_name: Option<String>,
    pub password: Option<Vec<u8>>,
}

#[derive(Clone, Debug, PartialEq, Eq, Hash, Serialize, Deserialize)]
pub struct Publish {
    pub dup: bool,
    pub qos: u8,
    pub retain: bool,
    pub topic: String,
    pub pid: Option<u16>,
    pub props: Vec<Prop>,
    pub payload: Vec<u8>,
}

/// PUBACK / PUBREC / PUBREL / PUBCOMP. `reason == None` is the 2-byte short form, `props == None`
/// with a reason is the 3-byte form.
#[derive(Clone, Debug, PartialEq, Eq, Hash, Serialize, Deserialize)]
pub struct Ack {
    pub pid: u16,
    pub reason: Option<u8>,
    pub props: Option<Vec<Prop>>,
}

impl Ack {
    pub fn short(pid: u16) -> Self {
        Self { pid, reason: None, props: None }
    }
    pub fn with_reason(pid: u16, reason: u8) -> Self {
        Self { pid, reason: Some(reason), props: None }
    }
    pub fn code(&self) -> u8 {
        self.reason.unwrap_or(0)
    }
}

#[derive(Clone, Debug, PartialEq, Eq, Hash, Serialize, Deserialize)]
pub enum Packet {
    Connect(Connect),
    ConnAck { session_present: bool, reason: u8, props: Vec<Prop> },
    Publish(Publish),
    PubAck(Ack),
    PubRec(Ack),
    PubRel(Ack),
    PubComp(Ack),
    Subscribe { pid: u16, props: Vec<Prop>, filters: Vec<(String, SubOpts)> },
    SubAck { pid: u16, props: Vec<Prop>, codes: Vec<u8> },
    Unsubscribe { pid: u16, props: Vec<Prop>, filters: Vec<String> },
    UnsubAck { pid: u16, props: Vec<Prop>, codes: Vec<u8> },
    PingReq,
    PingResp,
    Disconnect { reason: Option<u8>, props: Option<Vec<Prop>> },
    Auth { reason: Option<u8>, props: Option<Vec<Prop>> },
}

impl Packet {
    pub fn type_code(&self) -> u8 {
        match self {
            Packet::Connect(_) => 1,
            Packet::ConnAck { .. } => 2,
            Packet::Publish(_) => 3,
            Packet::PubAck(_) => 4,
            Packet::PubRec(_) => 5,
            Packet::PubRel(_) => 6,
            Packet::PubComp(_) => 7,
            Packet::Subscribe { .. } => 8,
            Packet::SubAck { .. } => 9,
            Packet::Unsubscribe { .. } => 10,
            Packet::UnsubAck { .. } => 11,
            Packet::PingReq => 12,
            Packet::PingResp => 13,
            Packet::Disconnect { .. } => 14,
            Packet::Auth { .. } => 15,
        }
    }

    pub fn type_name(&self) -> &'static str {
        type_name(self.type_code())
    }

    /// Packet identifier carried by the packet, if the type has one.
    pub fn pid(&self) -> Option<u16> {
        match self {
            Packet::Publish(p) => p.pid,
            Packet::PubAck(a) | Packet::PubRec(a) | Packet::PubRel(a) | Packet::PubComp(a) => Some(a.pid),
            Packet::Subscribe { pid, .. }
            | Packet::SubAck { pid, .. }
            | Packet::Unsubscribe { pid, .. }
            | Packet::UnsubAck { pid, .. } => Some(*pid),
            _ => None,
        }
    }
}

pub fn type_name(code: u8) -> &'static str {
    [
        "RESERVED0", "CONNECT", "CONNACK", "PUBLISH", "PUBACK", "PUBREC", "PUBREL", "PUBCOMP", "SUBSCRIBE",
        "SUBACK", "UNSUBSCRIBE", "UNSUBACK", "PINGREQ", "PINGRESP", "DISCONNECT", "AUTH",
    ][(code & 15) as usize]
}

// ------------------------------------------------------------------------------------------------
// encoding
// ------------------------------------------------------------------------------------------------

pub fn varint_len(v: u32) -> usize {
    match v {
        0..=127 => 1,
        128..=16_383 => 2,
        16_384..=2_097_151 => 3,
        _ => 4,
    }
}

pub fn put_varint(out: &mut Vec<u8>, mut v: u32) {
    assert!(v <= 268_435_455);
    loop {
        let mut b = (v % 128) as u8;
        v /= 128;
        if v > 0 {
            b |= 0x80;
        }
        out.push(b);
        if v == 0 {
            break;
        }
    }
}

fn put_str(out: &mut Vec<u8>, s: &str) {
    put_bin(out, s.as_bytes())
}

fn put_bin(out: &mut Vec<u8>, b: &[u8]) {
    assert!(b.len() <= 65_535, "field too long for MQTT");
    out.extend_from_slice(&(b.len() as u16).to_be_bytes());
    out.extend_from_slice(b);
}

pub fn encode_props(props: &[Prop]) -> Vec<u8> {
    let mut body = Vec::new();
    for p in props {
        p.encode(&mut body);
    }
    let mut out = Vec::with_capacity(body.len() + 4);
    put_varint(&mut out, body.len() as u32);
    out.extend_from_slice(&body);
    out
}

fn encode_ack(first: u8, a: &Ack) -> Vec<u8> {
    let mut body = Vec::new();
    body.extend_from_slice(&a.pid.to_be_bytes());
    if let Some(r) = a.reason {
        body.push(r);
        if let Some(p) = &a.props {
            body.extend_from_slice(&encode_props(p));
        }
    } else {
        assert!(a.props.is_none());
    }
    frame(first, &body)
}

pub fn frame(first: u8, body: &[u8]) -> Vec<u8> {
    let mut out = Vec::with_capacity(body.len() + 5);
    out.push(first);
    put_varint(&mut out, body.len() as u32);
    out.extend_from_slice(body);
    out
}

/// Canonical encoding. Returns `None` when the packet cannot be expressed in MQTT (a field longer
/// than 65535 bytes or a body above the 4-byte remaining-length limit).
pub fn try_encode(p: &Packet) -> Option<Vec<u8>> {
    if !encodable(p) {
        return None;
    }
    Some(encode(p))
}

fn props_encodable(ps: &[Prop]) -> bool {
    ps.iter().all(|p| match p {
        Prop::ContentType(s) | Prop::ResponseTopic(s) | Prop::AssignedClientId(s) | Prop::AuthMethod(s)
        | Prop::ResponseInfo(s) | Prop::ServerReference(s) | Prop::ReasonString(s) => s.len() <= 65_535,
        Prop::CorrelationData(b) | Prop::AuthData(b) => b.len() <= 65_535,
        Prop::UserProperty(k, v) => k.len() <= 65_535 && v.len() <= 65_535,
        Prop::SubscriptionId(v) => *v <= 268_435_455,
        _ => true,
    })
}

fn encodable(p: &Packet) -> bool {
    match p {
        Packet::Connect(c) => {
            props_encodable(&c.props)
                && c.client_id.len() <= 65_535
                && c.will.as_ref().is_none_or(|w| {
                    props_encodable(&w.props) && w.topic.len() <= 65_535 && w.payload.len() <= 65_535
                })
                && c.user_name.as_ref().is_none_or(|u| u.len() <= 65_535)
                && c.password.as_ref().is_none_or(|u| u.len() <= 65_535)
        }
        Packet::Publish(p) => props_encodable(&p.props) && p.topic.len() <= 65_535,
        Packet::Subscribe { props, filters, .. } => {
            props_encodable(props) && filters.iter().all(|f| f.0.len() <= 65_535)
        }
        Packet::Unsubscribe { props, filters, .. } => {
            props_encodable(props) && filters.iter().all(|f| f.len() <= 65_535)
        }
        Packet::Disconnect { props, .. } | Packet::Auth { props, .. } => {
            props.as_ref().is_none_or(|p| props_encodable(p))
        }
        Packet::PubAck(a) | Packet::PubRec(a) | Packet::PubRel(a) | Packet::PubComp(a) => {
            a.props.as_ref().is_none_or(|p| props_encodable(p))
        }
        Packet::ConnAck { props, .. } | Packet::SubAck { props, .. } | Packet::UnsubAck { props, .. } => {
            props_encodable(props)
        }
        _ => true,
    }
}

pub fn encode(p: &Packet) -> Vec<u8> {
    match p {
        Packet::Connect(c) => {
            let mut b = Vec::new();
            put_str(&mut b, "MQTT");
            b.push(5);
            let mut flags = 0u8;
            if c.clean_start {
                flags |= 0x02;
            }
            if let Some(w) = &c.will {
                flags |= 0x04 | ((w.qos & 3) << 3);
                if w.retain {
                    flags |= 0x20;
                }
            }
            if c.password.is_some() {
                flags |= 0x40;
            }
            if c.user_name.is_some() {
                flags |= 0x80;
            }
            b.push(flags);
            b.extend_from_slice(&c.keep_alive.to_be_bytes());
            b.extend_from_slice(&encode_props(&c.props));
            put_str(&mut b, &c.client_id);
            if let Some(w) = &c.will {
                b.extend_from_slice(&encode_props(&w.props));
                put_str(&mut b, &w.topic);
                put_bin(&mut b, &w.payload);
            }
            if let Some(u) = &c.user_name {
                put_str(&mut b, u);
            }
            if let Some(pw) = &c.password {
                put_bin(&mut b, pw);
            }
            frame(0x10, &b)
        }
        Packet::ConnAck { session_present, reason, props } => {
            let mut b = vec![*session_present as u8, *reason];
            b.extend_from_slice(&encode_props(props));
            frame(0x20, &b)
        }
        Packet::Publish(p) => {
            let mut b = Vec::with_capacity(p.payload.len() + p.topic.len() + 16);
            put_str(&mut b, &p.topic);
            if p.qos > 0 {
                b.extend_from_slice(&p.pid.expect("qos>0 publish needs a packet id").to_be_bytes());
            }
            b.extend_from_slice(&encode_props(&p.props));
            b.extend_from_slice(&p.payload);
            let first = 0x30 | ((p.dup as u8) << 3) | ((p.qos & 3) << 1) | p.retain as u8;
            frame(first, &b)
        }
        Packet::PubAck(a) => encode_ack(0x40, a),
        Packet::PubRec(a) => encode_ack(0x50, a),
        Packet::PubRel(a) => encode_ack(0x62, a),
        Packet::PubComp(a) => encode_ack(0x70, a),
        Packet::Subscribe { pid, props, filters } => {
            let mut b = pid.to_be_bytes().to_vec();
            b.extend_from_slice(&encode_props(props));
            for (f, o) in filters {
                put_str(&mut b, f);
                b.push((o.qos & 3) | ((o.no_local as u8) << 2) | ((o.rap as u8) << 3) | ((o.retain_handling & 3) << 4));
            }
            frame(0x82, &b)
        }
        Packet::SubAck { pid, props, codes } => {
            let mut b = pid.to_be_bytes().to_vec();
            b.extend_from_slice(&encode_props(props));
            b.extend_from_slice(codes);
            frame(0x90, &b)
        }
        Packet::Unsubscribe { pid, props, filters } => {
            let mut b = pid.to_be_bytes().to_vec();
            b.extend_from_slice(&encode_props(props));
            for f in filters {
                put_str(&mut b, f);
            }
            frame(0xA2, &b)
        }
        Packet::UnsubAck { pid, props, codes } => {
            let mut b = pid.to_be_bytes().to_vec();
            b.extend_from_slice(&encode_props(props));
            b.extend_from_slice(codes);
            frame(0xB0, &b)
        }
        Packet::PingReq => vec![0xC0, 0],
        Packet::PingResp => vec![0xD0, 0],
        Packet::Disconnect { reason, props } => frame(0xE0, &reason_body(*reason, props)),
        Packet::Auth { reason, props } => frame(0xF0, &reason_body(*reason, props)),
    }
}

fn reason_body(reason: Option<u8>, props: &Option<Vec<Prop>>) -> Vec<u8> {
    let mut b = Vec::new();
    if let Some(r) = reason {
        b.push(r);
        if let Some(p) = props {
            b.extend_from_slice(&encode_props(p));
        }
    } else {
        assert!(props.is_none());
    }
    b
}

// ------------------------------------------------------------------------------------------------
// decoding
// ------------------------------------------------------------------------------------------------

#[derive(Clone, Debug, PartialEq, Eq, Hash, Serialize, Deserialize)]
pub enum Anomaly {
    /// Fixed-header flag nibble differs from the value the specification requires.
    Flags { ptype: u8, flags: u8 },
    ReservedType(u8),
    Qos3,
    DupOnQos0,
    ZeroPacketId,
    InvalidUtf8(&'static str),
    NulInString(&'static str),
    EmptyTopic,
    WildcardInTopicName,
    BadFilter,
    PropNotAllowed { id: u8, ctx: Ctx },
    PropDuplicate { id: u8 },
    PropValue { id: u8 },
    UnknownProp(u8),
    BadSubOptions(u8),
    NoFilters,
    NoReasonCodes,
    BadBool(u8),
    ConnectProtocol,
    ConnectReservedFlag,
    ConnectWillFlags,
    ConnAckFlags(u8),
    ConnAckSessionPresentWithError,
    PubRelLikeReasonUnknown(u8),
}

#[derive(Clone, Debug, PartialEq, Eq)]
pub enum Fatal {
    /// Remaining-length or property-length varint is non-canonical or longer than 4 bytes.
    BadVarint(&'static str),
    /// A field runs past the end of its enclosing packet / property block.
    Overrun(&'static str),
    /// Bytes left over inside the packet after the last field.
    Trailing(usize),
    /// Property block cannot be walked (unknown identifier: length unknown).
    UnknownProperty(u8),
    /// The property block itself is well delimited but its contents are broken.
    InProps(Box<Fatal>),
}

#[derive(Clone, Debug)]
pub struct Decoded {
    pub packet: Packet,
    pub len: usize,
    pub anomalies: Vec<Anomaly>,
}

#[derive(Clone, Debug, PartialEq, Eq)]
pub enum DecodeError {
    /// More bytes are needed; `Some(n)` when the total packet length is already known.
    NeedMore(Option<usize>),
    Fatal(Fatal),
}

/// Reads a varint. `Ok(None)` = need more bytes.
pub fn get_varint(b: &[u8]) -> Result<Option<(u32, usize)>, Fatal> {
    let mut v = 0u32;
    for i in 0..4 {
        let Some(&x) = b.get(i) else { return Ok(None) };
        v |= ((x & 0x7F) as u32) << (7 * i);
        if x & 0x80 == 0 {
            if i > 0 && x == 0 {
                return Err(Fatal::BadVarint("non-canonical"));
            }
            return Ok(Some((v, i + 1)));
        }
    }
    Err(Fatal::BadVarint("longer than 4 bytes"))
}

struct Rd<'a> {
    b: &'a [u8],
    i: usize,
    an: Vec<Anomaly>,
}

impl<'a> Rd<'a> {
    fn left(&self) -> usize {
        self.b.len() - self.i
    }
    fn u8(&mut self, what: &'static str) -> Result<u8, Fatal> {
        let v = *self.b.get(self.i).ok_or(Fatal::Overrun(what))?;
        self.i += 1;
        Ok(v)
    }
    fn u16(&mut self, what: &'static str) -> Result<u16, Fatal> {
        Ok(u16::from_be_bytes([self.u8(what)?, self.u8(what)?]))
    }
    fn u32(&mut self, what: &'static str) -> Result<u32, Fatal> {
        Ok(u32::from_be_bytes([self.u8(what)?, self.u8(what)?, self.u8(what)?, self.u8(what)?]))
    }
    fn take(&mut self, n: usize, what: &'static str) -> Result<&'a [u8], Fatal> {
        if self.left() < n {
            return Err(Fatal::Overrun(what));
        }
        let s = &self.b[self.i..self.i + n];
        self.i += n;
        Ok(s)
    }
    fn bin(&mut self, what: &'static str) -> Result<Vec<u8>, Fatal> {
        let n = self.u16(what)? as usize;
        Ok(self.take(n, what)?.to_vec())
    }
    fn string(&mut self, what: &'static str) -> Result<String, Fatal> {
        let n = self.u16(what)? as usize;
        let raw = self.take(n, what)?;
        match std::str::from_utf8(raw) {
            Ok(s) => {
                if s.contains('\0') {
                    self.an.push(Anomaly::NulInString(what));
                }
                Ok(s.to_string())
            }
            Err(_) => {
                self.an.push(Anomaly::InvalidUtf8(what));
                Ok(String::from_utf8_lossy(raw).into_owned())
            }
        }
    }
    fn varint(&mut self, what: &'static str) -> Result<u32, Fatal> {
        match get_varint(&self.b[self.i..])? {
            Some((v, n)) => {
                self.i += n;
                Ok(v)
            }
            None => Err(Fatal::Overrun(what)),
        }
    }
    fn props(&mut self, ctx: Ctx) -> Result<Vec<Prop>, Fatal> {
        let len = self.varint("property length")? as usize;
        let block = self.take(len, "property block")?;
        let (out, mut an) = Self::props_block(block, ctx).map_err(|f| Fatal::InProps(Box::new(f)))?;
        self.an.append(&mut an);
        Ok(out)
    }

    fn props_block(block: &'a [u8], ctx: Ctx) -> Result<(Vec<Prop>, Vec<Anomaly>), Fatal> {
        let mut r = Rd { b: block, i: 0, an: Vec::new() };
        let mut out: Vec<Prop> = Vec::new();
        while r.left() > 0 {
            // identifiers are varints in the spec but all defined ones fit one byte
            let id = r.varint("property id")?;
            if id > 0xFF {
                return Err(Fatal::UnknownProperty(0xFF));
            }
            let id = id as u8;
            let p = match id {
                0x01 => Prop::PayloadFormat(r.u8("prop")?),
                0x02 => Prop::MessageExpiry(r.u32("prop")?),
                0x03 => Prop::ContentType(r.string("prop string")?),
                0x08 => Prop::ResponseTopic(r.string("prop string")?),
                0x09 => Prop::CorrelationData(r.bin("prop")?),
                0x0B => Prop::SubscriptionId(r.varint("prop varint")?),
                0x11 => Prop::SessionExpiry(r.u32("prop")?),
                0x12 => Prop::AssignedClientId(r.string("prop string")?),
                0x13 => Prop::ServerKeepAlive(r.u16("prop")?),
                0x15 => Prop::AuthMethod(r.string("prop string")?),
                0x16 => Prop::AuthData(r.bin("prop")?),
                0x17 => Prop::RequestProblemInfo(r.u8("prop")?),
                0x18 => Prop::WillDelay(r.u32("prop")?),
                0x19 => Prop::RequestResponseInfo(r.u8("prop")?),
                0x1A => Prop::ResponseInfo(r.string("prop string")?),
                0x1C => Prop::ServerReference(r.string("prop string")?),
                0x1F => Prop::ReasonString(r.string("prop string")?),
                0x21 => Prop::ReceiveMaximum(r.u16("prop")?),
                0x22 => Prop::TopicAliasMaximum(r.u16("prop")?),
                0x23 => Prop::TopicAlias(r.u16("prop")?),
                0x24 => Prop::MaximumQoS(r.u8("prop")?),
                0x25 => Prop::RetainAvailable(r.u8("prop")?),
                0x26 => {
                    let k = r.string("prop string")?;
                    let v = r.string("prop string")?;
                    Prop::UserProperty(k, v)
                }
                0x27 => Prop::MaximumPacketSize(r.u32("prop")?),
                0x28 => Prop::WildcardSubAvailable(r.u8("prop")?),
                0x29 => Prop::SubIdAvailable(r.u8("prop")?),
                0x2A => Prop::SharedSubAvailable(r.u8("prop")?),
                other => return Err(Fatal::UnknownProperty(other)),
            };
            if !Prop::legal_in(id, ctx) {
                r.an.push(Anomaly::PropNotAllowed { id, ctx });
            }
            if !p.value_legal() {
                r.an.push(Anomaly::PropValue { id });
            }
            if !Prop::may_repeat(id, ctx) && out.iter().any(|q| q.id() == id) {
                r.an.push(Anomaly::PropDuplicate { id });
            }
            out.push(p);
        }
        Ok((out, r.an))
    }
}

pub fn topic_name_ok(t: &str) -> bool {
    !t.is_empty() && !t.contains(['#', '+']) && !t.contains('\0')
}

pub fn topic_filter_ok(f: &str) -> bool {
    if f.is_empty() || f.contains('\0') {
        return false;
    }
    let levels: Vec<&str> = f.split('/').collect();
    for (i, l) in levels.iter().enumerate() {
        if l.contains('#') && (*l != "#" || i != levels.len() - 1) {
            return false;
        }
        if l.contains('+') && *l != "+" {
            return false;
        }
    }
    true
}

/// Decode one packet from the front of `bytes`.
pub fn decode(bytes: &[u8]) -> Result<Decoded, DecodeError> {
    if bytes.is_empty() {
        return Err(DecodeError::NeedMore(None));
    }
    let first = bytes[0];
    let (rl, n) = match get_varint(&bytes[1..]).map_err(DecodeError::Fatal)? {
        Some(x) => x,
        None => return Err(DecodeError::NeedMore(None)),
    };
    let total = 1 + n + rl as usize;
    if bytes.len() < total {
        return Err(DecodeError::NeedMore(Some(total)));
    }
    let body = &bytes[1 + n..total];
    let (packet, anomalies) = decode_body(first, body).map_err(DecodeError::Fatal)?;
    Ok(Decoded { packet, len: total, anomalies })
}

fn ack_body(r: &mut Rd<'_>, ctx: Ctx) -> Result<Ack, Fatal> {
    let pid = r.u16("packet id")?;
    if pid == 0 {
        r.an.push(Anomaly::ZeroPacketId);
    }
    let mut a = Ack { pid, reason: None, props: None };
    if r.left() > 0 {
        a.reason = Some(r.u8("reason")?);
        if r.left() > 0 {
            a.props = Some(r.props(ctx)?);
        }
    }
    Ok(a)
}

fn decode_body(first: u8, body: &[u8]) -> Result<(Packet, Vec<Anomaly>), Fatal> {
    let ptype = first >> 4;
    let flags = first & 0x0F;
    let mut r = Rd { b: body, i: 0, an: Vec::new() };
    let want_flags = match ptype {
        3 => None,
        6 | 8 | 10 => Some(2),
        _ => Some(0),
    };
    if let Some(w) = want_flags {
        if flags != w {
            r.an.push(Anomaly::Flags { ptype, flags });
        }
    }
    let p = match ptype {
        0 => {
            r.an.push(Anomaly::ReservedType(0));
            r.i = body.len();
            Packet::PingReq
        }
        1 => {
            let name = r.string("protocol name")?;
            let ver = r.u8("protocol version")?;
            if name != "MQTT" || ver != 5 {
                r.an.push(Anomaly::ConnectProtocol);
            }
            let cf = r.u8("connect flags")?;
            if cf & 1 != 0 {
                r.an.push(Anomaly::ConnectReservedFlag);
            }
            let keep_alive = r.u16("keep alive")?;
            let props = r.props(Ctx::Connect)?;
            let client_id = r.string("client id")?;
            let will_flag = cf & 0x04 != 0;
            let will_qos = (cf >> 3) & 3;
            let will_retain = cf & 0x20 != 0;
            let will = if will_flag {
                if will_qos == 3 {
                    r.an.push(Anomaly::ConnectWillFlags);
                }
                let wprops = r.props(Ctx::Will)?;
                let topic = r.string("will topic")?;
                if !topic_name_ok(&topic) {
                    r.an.push(Anomaly::EmptyTopic);
                }
                let payload = r.bin("will payload")?;
                Some(Will { qos: will_qos, retain: will_retain, props: wprops, topic, payload })
            } else {
                if will_qos != 0 || will_retain {
                    r.an.push(Anomaly::ConnectWillFlags);
                }
                None
            };
            let user_name = if cf & 0x80 != 0 { Some(r.string("user name")?) } else { None };
            let password = if cf & 0x40 != 0 { Some(r.bin("password")?) } else { None };
            Packet::Connect(Connect {
                clean_start: cf & 0x02 != 0,
                keep_alive,
                props,
                client_id,
                will,
                user_name,
                password,
            })
        }
        2 => {
            let f = r.u8("connack flags")?;
            if f > 1 {
                r.an.push(Anomaly::ConnAckFlags(f));
            }
            let reason = r.u8("reason")?;
            if f & 1 == 1 && reason != 0 {
                r.an.push(Anomaly::ConnAckSessionPresentWithError);
            }
            let props = r.props(Ctx::ConnAck)?;
            Packet::ConnAck { session_present: f & 1 == 1, reason, props }
        }
        3 => {
            let qos = (flags >> 1) & 3;
            let dup = flags & 8 != 0;
            if qos == 3 {
                r.an.push(Anomaly::Qos3);
            }
            if qos == 0 && dup {
                r.an.push(Anomaly::DupOnQos0);
            }
            let topic = r.string("topic")?;
            if topic.is_empty() {
                r.an.push(Anomaly::EmptyTopic);
            } else if topic.contains(['#', '+']) {
                r.an.push(Anomaly::WildcardInTopicName);
            }
            let pid = if qos > 0 {
                let id = r.u16("packet id")?;
                if id == 0 {
                    r.an.push(Anomaly::ZeroPacketId);
                }
                Some(id)
            } else {
                None
            };
            let props = r.props(Ctx::Publish)?;
            let payload = r.take(r.left(), "payload")?.to_vec();
            Packet::Publish(Publish { dup, qos, retain: flags & 1 != 0, topic, pid, props, payload })
        }
        4 => Packet::PubAck(ack_body(&mut r, Ctx::PubAck)?),
        5 => Packet::PubRec(ack_body(&mut r, Ctx::PubRec)?),
        6 => Packet::PubRel(ack_body(&mut r, Ctx::PubRel)?),
        7 => Packet::PubComp(ack_body(&mut r, Ctx::PubComp)?),
        8 => {
            let pid = r.u16("packet id")?;
            if pid == 0 {
                r.an.push(Anomaly::ZeroPacketId);
            }
            let props = r.props(Ctx::Subscribe)?;
            let mut filters = Vec::new();
            while r.left() > 0 {
                let f = r.string("topic filter")?;
                if !topic_filter_ok(&f) {
                    r.an.push(Anomaly::BadFilter);
                }
                let o = r.u8("subscription options")?;
                if o & 0xC0 != 0 || o & 3 == 3 || (o >> 4) & 3 == 3 {
                    r.an.push(Anomaly::BadSubOptions(o));
                }
                filters.push((
                    f,
                    SubOpts { qos: o & 3, no_local: o & 4 != 0, rap: o & 8 != 0, retain_handling: (o >> 4) & 3 },
                ));
            }
            if filters.is_empty() {
                r.an.push(Anomaly::NoFilters);
            }
            Packet::Subscribe { pid, props, filters }
        }
        9 | 11 => {
            let pid = r.u16("packet id")?;
            if pid == 0 {
                r.an.push(Anomaly::ZeroPacketId);
            }
            let props = r.props(if ptype == 9 { Ctx::SubAck } else { Ctx::UnsubAck })?;
            let codes = r.take(r.left(), "codes")?.to_vec();
            if codes.is_empty() {
                r.an.push(Anomaly::NoReasonCodes);
            }
            if ptype == 9 {
                Packet::SubAck { pid, props, codes }
            } else {
                Packet::UnsubAck { pid, props, codes }
            }
        }
        10 => {
            let pid = r.u16("packet id")?;
            if pid == 0 {
                r.an.push(Anomaly::ZeroPacketId);
            }
            let props = r.props(Ctx::Unsubscribe)?;
            let mut filters = Vec::new();
            while r.left() > 0 {
                let f = r.string("topic filter")?;
                if !topic_filter_ok(&f) {
                    r.an.push(Anomaly::BadFilter);
                }
                filters.push(f);
            }
            if filters.is_empty() {
                r.an.push(Anomaly::NoFilters);
            }
            Packet::Unsubscribe { pid, props, filters }
        }
        12 => Packet::PingReq,
        13 => Packet::PingResp,
        14 | 15 => {
            let mut reason = None;
            let mut props = None;
            if r.left() > 0 {
                reason = Some(r.u8("reason")?);
                if r.left() > 0 {
                    props = Some(r.props(if ptype == 14 { Ctx::Disconnect } else { Ctx::Auth })?);
                }
            }
            if ptype == 14 {
                Packet::Disconnect { reason, props }
            } else {
                Packet::Auth { reason, props }
            }
        }
        _ => unreachable!(),
    };
    if r.left() > 0 {
        return Err(Fatal::Trailing(r.left()));
    }
    Ok((p, r.an))
}

/// Incremental parser over a growing byte stream.
#[derive(Clone, Debug, Default)]
pub struct StreamParser {
    pub pos: usize,
    pub dead: Option<Fatal>,
}

#[derive(Clone, Debug)]
pub struct StreamItem {
    pub start: usize,
    pub end: usize,
    pub decoded: Decoded,
}

impl StreamParser {
    /// Parse as many complete packets as `stream[self.pos..]` holds.
    pub fn pump(&mut self, stream: &[u8]) -> Vec<StreamItem> {
        let mut out = Vec::new();
        while self.dead.is_none() && self.pos < stream.len() {
            match decode(&stream[self.pos..]) {
                Ok(d) => {
                    let start = self.pos;
                    self.pos += d.len;
                    out.push(StreamItem { start, end: self.pos, decoded: d });
                }
                Err(DecodeError::NeedMore(_)) => break,
                Err(DecodeError::Fatal(f)) => {
                    self.dead = Some(f);
                }
            }
        }
        out
    }
}

#[cfg(test)]
mod tests {
    use super::*;

    #[test]
    fn roundtrip_basic() {
        let pkts = vec![
            Packet::PingReq,
            Packet::PubAck(Ack::short(7)),
            Packet::PubRel(Ack { pid: 9, reason: Some(0x92), props: Some(vec![Prop::ReasonString("x".into())]) }),
            Packet::Publish(Publish {
                dup: true,
                qos: 2,
                retain: true,
                topic: "a/b".into(),
                pid: Some(77),
                props: vec![Prop::UserProperty("k".into(), "v".into()), Prop::SubscriptionId(300)],
                payload: vec![1, 2, 3],
            }),
            Packet::Disconnect { reason: None, props: None },
            Packet::ConnAck { session_present: true, reason: 0, props: vec![Prop::ReceiveMaximum(3)] },
        ];
        for p in pkts {
            let e = encode(&p);
            let d = decode(&e).unwrap();
            assert_eq!(d.packet, p);
            assert_eq!(d.len, e.len());
            assert!(d.anomalies.is_empty(), "{:?}", d.anomalies);
        }
    }
}
