//! Reference broker and the interpreter that runs a `Case` against a real `minimq::Session`.

use crate::refcodec::{self as rc, Ack, Packet, Prop, StreamParser};
use crate::scenario::*;
use crate::sim::clock;
use crate::sim::exec::{self, Outcome, RunCtl, TimePolicy};
use crate::sim::io::{Chunker, Fault, SimIo, Transport};
use crate::trace::*;
use minimq::{
    Buffers, ConfigBuilder, ConnectEvent, Connection, Disconnect, InboundPublish, Op, Property, Publication, QoS,
    ReasonCode, RetainHandling, Session, SubscriptionOptions, TopicFilter,
};
use std::cell::RefCell;
use std::rc::Rc;

pub type Tr = Rc<RefCell<Transport>>;

#[derive(Clone, Copy, Debug, PartialEq, Eq)]
pub enum OutKind {
    Pub1,
    Pub2,
    Sub(usize),
    Unsub(usize),
    Rel,
}

#[derive(Clone, Copy, Debug, PartialEq, Eq)]
pub struct Outst {
    pub kind: OutKind,
    pub pid: u16,
}

#[derive(Clone, Copy, Debug, PartialEq, Eq)]
pub enum BState {
    /// QoS 1 sent, waiting for PUBACK
    AwaitAck,
    /// QoS 2 sent, waiting for PUBREC
    AwaitRec,
    /// PUBREC received, PUBREL not yet sent (or to be re-sent)
    NeedRel,
    /// PUBREL sent, waiting for PUBCOMP
    AwaitComp,
}

#[derive(Clone, Debug)]
pub struct BIn {
    pub pid: u16,
    pub state: BState,
    pub publish: rc::Publish,
}

pub struct Broker {
    pub mode: BrokerMode,
    pub log: Log,
    pub session_exists: bool,
    pub session_expiry: u32,
    pub parser: StreamParser,
    pub plan: ConnectSpec,
    pub connect_seen: Option<rc::Connect>,
    pub connack_sent: bool,
    /// Maximum QoS of the CONNACK that accepted the current connection
    pub announced_max_qos: Option<u8>,
    /// Maximum Packet Size of the last CONNACK the *client* accepted in its current session (what
    /// the client may retain is a matter of the client's session, whatever the broker remembers)
    pub announced_max_packet: Option<Option<u32>>,
    pub last_connack_mp: Option<u32>,
    /// Receive Maximum of the CONNACK that accepted the current connection; like a real broker the
    /// model ends the connection with DISCONNECT 0x93 when the client exceeds it
    pub announced_rm: u32,
    pub rm_enforced: u32,
    open_here: Vec<u16>,
    /// identifiers of exchanges this broker has ended (terminal acknowledgement sent) and that
    /// have not been started again by a non-DUP PUBLISH
    ended: Vec<u16>,
    /// (identifier, encoded length, PUBREL seen) of every identifier-bearing request received in
    /// this broker session: what the client may still retain and would have to retransmit
    pub maybe_retained: Vec<(u16, u32, bool)>,
    /// an identifier-bearing request was cancelled or failed: the broker cannot tell what the
    /// client retains
    pub epoch_uncertain: bool,
    /// identifier-bearing requests the client accepted (told by the interpreter) / whose first
    /// transmission arrived here, in this broker session
    pub accepted_requests: u32,
    pub received_requests: u32,
    pub unconditional_limits: bool,
    pub mps_shrinks_applied: u32,
    pub mps_shrinks_withheld: u32,
    pub outstanding: Vec<Outst>,
    /// acknowledgements already sent in this broker session (type, id)
    pub acked: Vec<(Outst, u8)>,
    /// QoS 2 exchanges for which this broker already answered PUBREC (id, reason) and has not
    /// yet seen PUBREL: a retransmitted PUBLISH gets the same answer again.
    pub q2_answered: Vec<(u16, u8)>,
    pub b_inflight: Vec<BIn>,
    pub next_bpid: u16,
    pub client_rm: u16,
    pub client_max_packet: u32,
    pub inbound: Vec<InPkt>,
    pub client_disconnected: bool,
    /// automatic PINGRESP after this many ticks (None: never automatic in scripted mode)
    pub ping_delay: Option<u64>,
    pub ping_delays: Vec<Option<u64>>,
    pub pings_seen: usize,
    /// a scripted broker left a PINGREQ of the current connection unanswered
    pub ping_unanswered: bool,
    /// number of Deliver steps skipped because they would violate conformance
    pub skipped: u32,
    pub pubrecs_forgotten: u32,
}

impl Broker {
    pub fn new(mode: BrokerMode, log: Log) -> Self {
        Self {
            mode,
            log,
            session_exists: false,
            session_expiry: 0,
            parser: StreamParser::default(),
            plan: ConnectSpec::default(),
            connect_seen: None,
            connack_sent: false,
            announced_max_qos: None,
            announced_max_packet: None,
            last_connack_mp: None,
            announced_rm: 65535,
            rm_enforced: 0,
            open_here: Vec::new(),
            ended: Vec::new(),
            maybe_retained: Vec::new(),
            epoch_uncertain: false,
            accepted_requests: 0,
            received_requests: 0,
            unconditional_limits: false,
            mps_shrinks_applied: 0,
            mps_shrinks_withheld: 0,
            outstanding: Vec::new(),
            acked: Vec::new(),
            q2_answered: Vec::new(),
            b_inflight: Vec::new(),
            next_bpid: 1,
            client_rm: 65535,
            client_max_packet: u32::MAX,
            inbound: Vec::new(),
            client_disconnected: false,
            ping_delay: None,
            ping_delays: Vec::new(),
            pings_seen: 0,
            ping_unanswered: false,
            skipped: 0,
            pubrecs_forgotten: 0,
        }
    }

    pub fn new_transport(&mut self, plan: &ConnectSpec) {
        // the previous network connection is gone
        if self.session_expiry == 0 {
            self.session_exists = false;
        }
        self.parser = StreamParser::default();
        self.plan = plan.clone();
        self.connect_seen = None;
        self.connack_sent = false;
        self.client_disconnected = false;
        self.ping_unanswered = false;
        self.open_here.clear();
    }

    pub fn queue(&mut self, tr: &mut Transport, packet: Option<Packet>, bytes: Vec<u8>, at: Option<u64>) {
        let off = tr.inbound.len();
        let idx = self.inbound.len();
        let eff = tr.push_inbound_at(at.unwrap_or_else(clock::now), &bytes);
        self.inbound.push(InPkt { tr: tr.id, off, len: bytes.len(), packet, bytes: bytes.clone(), at: eff });
        tr.release_due();
        self.log.borrow_mut().push(Event::Queued { tr: tr.id, idx });
    }

    pub fn send(&mut self, tr: &mut Transport, p: Packet) {
        let bytes = rc::encode(&p);
        if bytes.len() as u64 > self.client_max_packet as u64 && !matches!(p, Packet::ConnAck { .. }) {
            // a conformant broker never exceeds the client's Maximum Packet Size
            self.skipped += 1;
            return;
        }
        self.queue(tr, Some(p), bytes, None);
    }

    /// Parse whatever the client has written since the last call and react. Returns true when new
    /// inbound bytes were queued.
    pub fn pump(&mut self, tr: &mut Transport) -> bool {
        let before = self.inbound.len();
        let eof_before = tr.eof;
        let items = self.parser.pump(&tr.out);
        for it in items {
            self.on_packet(tr, &it.decoded.packet);
        }
        self.inbound.len() != before || tr.eof != eof_before
    }

    fn note_request(&mut self, pid: u16, p: &Packet) {
        let len = rc::encode(p).len() as u32;
        // first transmissions (counted low on purpose: an identifier seen before is taken for a
        // retransmission even if it was reused)
        let first = match p {
            Packet::Publish(pb) => !pb.dup,
            _ => !self.maybe_retained.iter().any(|e| e.0 == pid),
        };
        if first {
            self.received_requests += 1;
        }
        self.maybe_retained.retain(|e| e.0 != pid);
        self.maybe_retained.push((pid, len, false));
    }

    /// Smallest Maximum Packet Size under which everything the client may still retain from this
    /// broker session can be retransmitted (a retained packet above the limit blocks the
    /// connection: that is C14's subject, not a limit a broker may spring on a session).
    /// connect() returned on the client side: `fresh` = it discarded its session state.
    pub fn client_connected(&mut self, fresh: bool) {
        if fresh {
            self.maybe_retained.clear();
            self.epoch_uncertain = false;
            self.accepted_requests = 0;
            self.received_requests = 0;
        }
        self.announced_max_packet = Some(self.last_connack_mp);
    }

    fn retransmission_floor(&self) -> u32 {
        if self.epoch_uncertain || self.received_requests < self.accepted_requests {
            return u32::MAX;
        }
        self.maybe_retained.iter().map(|e| if e.2 { 5 } else { e.1 }).max().unwrap_or(0).max(5)
    }

    fn on_packet(&mut self, tr: &mut Transport, p: &Packet) {
        let auto = self.mode == BrokerMode::AutoAck;
        match p {
            Packet::Connect(c) => {
                if self.connect_seen.is_some() {
                    return;
                }
                self.connect_seen = Some(c.clone());
                for pr in &c.props {
                    match pr {
                        Prop::ReceiveMaximum(v) => self.client_rm = *v,
                        Prop::MaximumPacketSize(v) => self.client_max_packet = *v,
                        Prop::SessionExpiry(v) => self.session_expiry = *v,
                        _ => {}
                    }
                }
                if c.props.iter().any(|p| matches!(p, Prop::ReceiveMaximum(0) | Prop::MaximumPacketSize(0))) {
                    // MQTT 5 section 3.1.2.11: a value of 0 is a Protocol Error
                    self.send(tr, Packet::ConnAck { session_present: false, reason: 0x82, props: vec![] });
                    tr.eof = true;
                    return;
                }
                self.handshake(tr, c.clean_start);
            }
            Packet::Publish(pb) => {
                if let Some(pid) = pb.pid {
                    self.note_request(pid, p);
                    let kind = if pb.qos == 1 { OutKind::Pub1 } else { OutKind::Pub2 };
                    if !self.outstanding.iter().any(|o| o.pid == pid && o.kind == kind) {
                        self.outstanding.push(Outst { kind, pid });
                    }
                    // unresolved exchanges of the client on this broker: publishes waiting for their
                    // first answer plus QoS 2 exchanges waiting for PUBCOMP
                    // (counted per connection, like C06 does: PUBLISH packets received on this
                    // connection whose exchange the broker has not ended yet)
                    // (a DUP copy of an exchange the broker has already ended is a late duplicate:
                    // the client is entitled to regard that exchange as resolved)
                    if !pb.dup {
                        self.ended.retain(|x| *x != pid);
                    }
                    if !self.open_here.contains(&pid) && !(pb.dup && self.ended.contains(&pid)) {
                        self.open_here.push(pid);
                    }
                    let open = self.open_here.len() as u32;
                    if open > self.announced_rm && self.connack_sent {
                        self.rm_enforced += 1;
                        self.send(tr, Packet::Disconnect { reason: Some(0x93), props: None });
                        tr.eof = true;
                        return;
                    }
                    if auto {
                        self.ack_outstanding(tr, self.outstanding.len() - 1, 0, AckForm::Short);
                    }
                }
            }
            Packet::PubRel(a) => {
                if let Some(e) = self.maybe_retained.iter_mut().find(|e| e.0 == a.pid) {
                    e.2 = true;
                }
                // the client has seen a PUBREC for this exchange: an unanswered retransmission of
                // its PUBLISH no longer needs (and must not get a different) PUBREC
                self.outstanding.retain(|o| !(o.pid == a.pid && o.kind == OutKind::Pub2));
                if !self.outstanding.iter().any(|o| o.pid == a.pid && o.kind == OutKind::Rel) {
                    self.outstanding.push(Outst { kind: OutKind::Rel, pid: a.pid });
                }
                if auto {
                    self.ack_outstanding(tr, self.outstanding.len() - 1, 0, AckForm::Short);
                }
            }
            Packet::Subscribe { pid, filters, .. } => {
                self.note_request(*pid, p);
                self.outstanding.push(Outst { kind: OutKind::Sub(filters.len()), pid: *pid });
                if auto {
                    self.ack_outstanding(tr, self.outstanding.len() - 1, 0, AckForm::Short);
                }
            }
            Packet::Unsubscribe { pid, filters, .. } => {
                self.note_request(*pid, p);
                self.outstanding.push(Outst { kind: OutKind::Unsub(filters.len()), pid: *pid });
                if auto {
                    self.ack_outstanding(tr, self.outstanding.len() - 1, 0, AckForm::Short);
                }
            }
            Packet::PubAck(a) => {
                self.b_inflight.retain(|b| !(b.pid == a.pid && b.state == BState::AwaitAck));
            }
            Packet::PubRec(a) => {
                if a.code() >= 0x80 {
                    self.b_inflight.retain(|b| b.pid != a.pid);
                } else if let Some(b) = self.b_inflight.iter_mut().find(|b| b.pid == a.pid) {
                    if b.state == BState::AwaitRec {
                        b.state = BState::NeedRel;
                    }
                    if auto {
                        b.state = BState::AwaitComp;
                        let pid = a.pid;
                        self.send(tr, Packet::PubRel(Ack::short(pid)));
                    }
                }
            }
            Packet::PubComp(a) => {
                self.b_inflight
                    .retain(|b| !(b.pid == a.pid && matches!(b.state, BState::AwaitComp | BState::NeedRel)));
            }
            Packet::PingReq => {
                if !self.ping_delays.is_empty() {
                    let d = self.ping_delays[self.pings_seen % self.ping_delays.len()];
                    self.pings_seen += 1;
                    if let Some(d) = d {
                        let bytes = rc::encode(&Packet::PingResp);
                        self.queue(tr, Some(Packet::PingResp), bytes, Some(clock::now() + d));
                    }
                } else if let Some(d) = self.ping_delay {
                    let bytes = rc::encode(&Packet::PingResp);
                    self.queue(tr, Some(Packet::PingResp), bytes, Some(clock::now() + d));
                } else if auto {
                    self.send(tr, Packet::PingResp);
                } else {
                    self.ping_unanswered = true;
                }
            }
            Packet::Disconnect { .. } => self.client_disconnected = true,
            _ => {}
        }
    }

    /// The planned Maximum Packet Size, unless it is smaller than on the previous connection of a
    /// resumed session and something the client may still retain would not fit: then the previous
    /// value stays in force.
    fn effective_max_packet(&self, resumed: bool) -> Option<u32> {
        let planned = self.plan.props.max_packet;
        if self.unconditional_limits {
            return planned;
        }
        let (true, Some(prev)) = (resumed, self.announced_max_packet) else { return planned };
        let shrinks = match (planned, prev) {
            (Some(m), Some(q)) => m < q,
            (Some(_), None) => true,
            _ => false,
        };
        if shrinks && planned.is_some_and(|m| m < self.retransmission_floor()) {
            prev
        } else {
            planned
        }
    }

    fn connack_packet(&self, sp: bool, reason: u8) -> Packet {
        // A conformant broker never exceeds the client's Maximum Packet Size: optional properties
        // are dropped first, then the per-connection ones. Maximum Packet Size / Maximum QoS are
        // the same on every connection of a case, so whether they are announced is decided by a
        // rule that does not depend on this connection's Receive Maximum (which may differ from
        // CONNACK to CONNACK): they go out iff they fit on their own; Receive Maximum is dropped
        // before them.
        let p = &self.plan.props;
        let mut rm = Vec::new();
        let mut stable = Vec::new();
        let mut per_conn = Vec::new();
        if reason == 0 {
            if let Some(v) = p.receive_max {
                rm.push(Prop::ReceiveMaximum(v));
            }
            if let Some(v) = self.effective_max_packet(sp) {
                stable.push(Prop::MaximumPacketSize(v));
            }
            if let Some(v) = p.max_qos {
                stable.push(Prop::MaximumQoS(v));
            }
            if let Some(v) = p.server_keepalive {
                per_conn.push(Prop::ServerKeepAlive(v));
            }
            if let Some(v) = &p.assigned_id {
                per_conn.push(Prop::AssignedClientId(v.clone()));
            }
        }
        let fits = |props: &Vec<Prop>| rc::encode(&Packet::ConnAck { session_present: sp, reason, props: props.clone() }).len() as u64 <= self.client_max_packet as u64;
        if !fits(&stable) {
            stable.clear();
        }
        let extra: Vec<Prop> = if reason == 0 { p.extra.clone() } else { vec![] };
        let candidates: Vec<Vec<Prop>> = vec![
            [rm.clone(), stable.clone(), per_conn.clone(), extra].concat(),
            [rm.clone(), stable.clone(), per_conn].concat(),
            [rm, stable.clone()].concat(),
            stable,
            vec![],
        ];
        for props in candidates {
            if fits(&props) {
                return Packet::ConnAck { session_present: sp, reason, props };
            }
        }
        Packet::ConnAck { session_present: sp, reason, props: vec![] }
    }

    fn handshake(&mut self, tr: &mut Transport, clean_start: bool) {
        let can_resume = !clean_start && self.session_exists && self.plan.keep_session;
        match self.plan.handshake.clone() {
            Handshake::Accept | Handshake::CancelAt(_) | Handshake::Fault(_) => {
                if !can_resume {
                    self.outstanding.clear();
                    self.ended.clear();
                    self.acked.clear();
                    self.q2_answered.clear();
                    self.b_inflight.clear();
                }
                if can_resume && self.plan.lost_pubrecs {
                    // the PUBRECs of the previous connection "never arrived"
                    for b in self.b_inflight.iter_mut() {
                        if b.state == BState::NeedRel {
                            b.state = BState::AwaitRec;
                            self.pubrecs_forgotten += 1;
                        }
                    }
                }
                self.session_exists = true;
                let p = self.connack_packet(can_resume, 0);
                let mp = match &p {
                    Packet::ConnAck { props, .. } => props.iter().find_map(|x| if let Prop::MaximumPacketSize(q) = x { Some(*q) } else { None }),
                    _ => None,
                };
                if can_resume && self.plan.props.max_packet != mp && self.plan.props.max_packet.is_some() {
                    self.mps_shrinks_withheld += 1;
                } else if can_resume && self.announced_max_packet.is_some_and(|prev| prev != mp) && mp.is_some() {
                    self.mps_shrinks_applied += 1;
                }
                self.last_connack_mp = mp;
                self.announced_rm = match &p {
                    Packet::ConnAck { props, .. } => props.iter().find_map(|x| if let Prop::ReceiveMaximum(q) = x { Some(*q as u32) } else { None }).unwrap_or(65535),
                    _ => 65535,
                };
                self.announced_max_qos = match &p {
                    Packet::ConnAck { props, .. } => props.iter().find_map(|x| if let Prop::MaximumQoS(q) = x { Some(*q) } else { None }),
                    _ => None,
                };
                self.send(tr, p);
                self.connack_sent = true;
            }
            Handshake::Reject(code) => {
                let p = self.connack_packet(false, code.max(0x80));
                self.send(tr, p);
                tr.eof = true;
            }
            Handshake::Garbage(bytes) => {
                self.queue(tr, None, bytes, None);
                tr.eof = true;
            }
            Handshake::ServerDisconnect(reason) => {
                self.send(tr, Packet::Disconnect { reason: Some(reason), props: None });
                tr.eof = true;
            }
            Handshake::EofAfter(n) | Handshake::StallAfter(n) => {
                // the broker did accept (its session state changes) but the answer is cut short
                if !can_resume {
                    self.outstanding.clear();
                    self.ended.clear();
                    self.acked.clear();
                    self.q2_answered.clear();
                    self.b_inflight.clear();
                }
                self.session_exists = true;
                let full = rc::encode(&self.connack_packet(can_resume, 0));
                let n = (n as usize).min(full.len().saturating_sub(1));
                self.queue(tr, None, full[..n].to_vec(), None);
                if matches!(self.plan.handshake, Handshake::EofAfter(_)) {
                    tr.eof = true;
                }
            }
        }
    }

    fn ack_packet_for(o: Outst, reason: u8, form: AckForm) -> Packet {
        let ack = |pid: u16| match form {
            AckForm::Short if reason == 0 => Ack::short(pid),
            AckForm::Short | AckForm::Reason => Ack::with_reason(pid, reason),
            AckForm::ReasonProps => Ack { pid, reason: Some(reason), props: Some(vec![Prop::ReasonString("r".into())]) },
        };
        let extra_props = || match form {
            AckForm::ReasonProps => vec![Prop::ReasonString("r".into()), Prop::UserProperty("k".into(), "v".into())],
            _ => vec![],
        };
        match o.kind {
            OutKind::Pub1 => Packet::PubAck(ack(o.pid)),
            OutKind::Pub2 => Packet::PubRec(ack(o.pid)),
            OutKind::Rel => Packet::PubComp(ack(o.pid)),
            OutKind::Sub(n) => {
                // one code per filter: the generated one sits at a position derived from the
                // identifier, the others are the legal "granted QoS" successes
                let n = n.max(1);
                let mut codes: Vec<u8> = (0..n).map(|i| ((o.pid as usize + i) % 3) as u8).collect();
                codes[(o.pid as usize + reason as usize) % n] = reason;
                Packet::SubAck { pid: o.pid, props: extra_props(), codes }
            }
            OutKind::Unsub(n) => {
                let n = n.max(1);
                let mut codes: Vec<u8> = (0..n).map(|i| if (o.pid as usize + i) % 3 == 2 { 0x11 } else { 0 }).collect();
                codes[(o.pid as usize + reason as usize) % n] = reason;
                Packet::UnsubAck { pid: o.pid, props: extra_props(), codes }
            }
        }
    }

    fn ack_outstanding(&mut self, tr: &mut Transport, i: usize, reason: u8, form: AckForm) {
        let o = self.outstanding[i];
        // reason codes must be legal for the packet type; map a generic "failure" byte
        let mut reason = legal_reason(o.kind, reason);
        if o.kind == OutKind::Pub2 {
            if let Some(prev) = self.q2_answered.iter().find(|x| x.0 == o.pid) {
                reason = prev.1;
            }
        }
        // the optional reason string / user properties are dropped when the packet would exceed
        // the client's Maximum Packet Size (MQTT 5 section 3.4.2.2.2 and siblings)
        let mut p = Self::ack_packet_for(o, reason, form);
        if rc::encode(&p).len() as u64 > self.client_max_packet as u64 {
            p = Self::ack_packet_for(o, reason, AckForm::Reason);
        }
        if rc::encode(&p).len() as u64 > self.client_max_packet as u64 {
            self.skipped += 1;
            return; // cannot be acknowledged at all within the client's limit
        }
        self.outstanding.remove(i);
        match o.kind {
            OutKind::Pub1 | OutKind::Rel => {
                self.open_here.retain(|x| *x != o.pid);
                self.ended.push(o.pid);
            }
            OutKind::Pub2 if reason >= 0x80 => {
                self.open_here.retain(|x| *x != o.pid);
                self.ended.push(o.pid);
            }
            _ => {}
        }
        match o.kind {
            OutKind::Pub2 => {
                if !self.q2_answered.iter().any(|x| x.0 == o.pid) {
                    self.q2_answered.push((o.pid, reason));
                }
            }
            OutKind::Rel => self.q2_answered.retain(|x| x.0 != o.pid),
            _ => {}
        }
        self.acked.push((o, reason));
        self.send(tr, p);
    }

    /// Execute a scripted broker action. Returns false when it was a no-op.
    pub fn act(&mut self, tr: &mut Transport, a: &BrokerAct) -> bool {
        if !self.connack_sent {
            return false;
        }
        match a {
            BrokerAct::Ack { which, reason, form } => {
                if self.outstanding.is_empty() {
                    return false;
                }
                let i = map_index(*which, self.outstanding.len());
                self.ack_outstanding(tr, i, *reason, *form);
                true
            }
            BrokerAct::AckAll { reverse } => {
                if self.outstanding.is_empty() {
                    return false;
                }
                let mut keep = 0usize;
                while self.outstanding.len() > keep {
                    let before = self.outstanding.len();
                    let i = if *reverse { self.outstanding.len() - 1 - keep } else { keep };
                    self.ack_outstanding(tr, i, 0, AckForm::Short);
                    if self.outstanding.len() == before {
                        keep += 1; // cannot be acknowledged within the client's packet size limit
                    }
                }
                true
            }
            BrokerAct::StaleAck { which } => {
                if self.acked.is_empty() {
                    return false;
                }
                let (o, reason) = self.acked[map_index(*which, self.acked.len())];
                if self.outstanding.iter().any(|x| x.pid == o.pid) {
                    return false;
                }
                let p = Self::ack_packet_for(o, reason, AckForm::Reason);
                self.send(tr, p);
                true
            }
            BrokerAct::Deliver { qos, retain, topic, payload, props, redeliver } => {
                if let Some(k) = redeliver {
                    if self.b_inflight.is_empty() {
                        return false;
                    }
                    let i = map_index(*k as u16, self.b_inflight.len());
                    let b = self.b_inflight[i].clone();
                    match b.state {
                        BState::AwaitAck | BState::AwaitRec => {
                            let mut pb = b.publish.clone();
                            pb.dup = true;
                            self.send(tr, Packet::Publish(pb));
                        }
                        BState::NeedRel | BState::AwaitComp => {
                            self.b_inflight[i].state = BState::AwaitComp;
                            self.send(tr, Packet::PubRel(Ack::short(b.pid)));
                        }
                    }
                    return true;
                }
                let mut qos = *qos;
                if qos > 0 && self.b_inflight.len() >= self.client_rm as usize {
                    // a conformant broker must not exceed the client's Receive Maximum
                    self.skipped += 1;
                    qos = 0;
                }
                let pid = if qos > 0 { Some(self.alloc_bpid()) } else { None };
                let pb = rc::Publish {
                    dup: false,
                    qos,
                    retain: *retain,
                    topic: topic.name(),
                    pid,
                    props: props.clone(),
                    payload: payload.bytes(),
                };
                let bytes = rc::encode(&Packet::Publish(pb.clone()));
                if bytes.len() as u64 > self.client_max_packet as u64 {
                    self.skipped += 1;
                    return false;
                }
                if let Some(pid) = pid {
                    let state = if qos == 1 { BState::AwaitAck } else { BState::AwaitRec };
                    self.b_inflight.push(BIn { pid, state, publish: pb.clone() });
                }
                self.queue(tr, Some(Packet::Publish(pb)), bytes, None);
                true
            }
            BrokerAct::PubRel { which, unknown } => {
                if let Some(pid) = unknown {
                    let pid = (*pid).max(1);
                    if self.b_inflight.iter().any(|b| b.pid == pid) {
                        return false;
                    }
                    // a PUBREL may carry a reason code (0x92 is the one a broker uses for an
                    // exchange it no longer knows); the client has to answer it all the same
                    let ack = match pid % 3 {
                        0 => Ack::short(pid),
                        1 => Ack::with_reason(pid, 0x92),
                        _ => Ack { pid, reason: Some(0x92), props: Some(vec![Prop::ReasonString("r".into())]) },
                    };
                    self.send(tr, Packet::PubRel(ack));
                    return true;
                }
                let cands: Vec<usize> = self
                    .b_inflight
                    .iter()
                    .enumerate()
                    .filter(|(_, b)| matches!(b.state, BState::NeedRel | BState::AwaitComp))
                    .map(|(i, _)| i)
                    .collect();
                if cands.is_empty() {
                    return false;
                }
                let i = cands[map_index(*which, cands.len())];
                self.b_inflight[i].state = BState::AwaitComp;
                let pid = self.b_inflight[i].pid;
                let ack = match (*which >> 13) & 7 {
                    0..=3 => Ack::short(pid),
                    4 => Ack::with_reason(pid, 0),
                    5 => Ack { pid, reason: Some(0), props: Some(vec![Prop::ReasonString("r".into())]) },
                    _ => Ack::with_reason(pid, 0x92),
                };
                self.send(tr, Packet::PubRel(ack));
                true
            }
            BrokerAct::PingResp => {
                self.ping_unanswered = false;
                self.send(tr, Packet::PingResp);
                true
            }
            BrokerAct::Disconnect { reason } => {
                self.send(tr, Packet::Disconnect { reason: Some(*reason), props: None });
                tr.eof = true;
                true
            }
            BrokerAct::Raw(bytes) => {
                if bytes.is_empty() {
                    return false;
                }
                self.queue(tr, None, bytes.clone(), None);
                true
            }
        }
    }

    /// Send PUBREL for every broker message whose PUBREC has arrived.
    pub fn release_all(&mut self, tr: &mut Transport) {
        let pids: Vec<u16> = self.b_inflight.iter().filter(|b| b.state == BState::NeedRel).map(|b| b.pid).collect();
        for pid in pids {
            if let Some(b) = self.b_inflight.iter_mut().find(|b| b.pid == pid) {
                b.state = BState::AwaitComp;
            }
            self.send(tr, Packet::PubRel(Ack::short(pid)));
        }
    }

    /// What a broker does after a session resume: retransmit its own unacknowledged publishes.
    pub fn resend_inflight(&mut self, tr: &mut Transport) {
        let items: Vec<BIn> = self.b_inflight.iter().filter(|b| matches!(b.state, BState::AwaitAck | BState::AwaitRec)).cloned().collect();
        for b in items {
            let mut pb = b.publish.clone();
            pb.dup = true;
            self.send(tr, Packet::Publish(pb));
        }
    }

    pub fn deliver_at(&mut self, tr: &mut Transport, at: u64, qos: u8, payload: &PayloadSpec, split: Option<(usize, u64)>) {
        if !self.connack_sent {
            return;
        }
        let mut qos = qos;
        if qos > 0 && self.b_inflight.len() >= self.client_rm as usize {
            qos = 0;
        }
        let pid = if qos > 0 { Some(self.alloc_bpid()) } else { None };
        let pb = rc::Publish { dup: false, qos, retain: false, topic: "in/t".into(), pid, props: vec![], payload: payload.bytes() };
        let bytes = rc::encode(&Packet::Publish(pb.clone()));
        if bytes.len() as u64 > self.client_max_packet as u64 {
            return;
        }
        if let Some(pid) = pid {
            let state = if qos == 1 { BState::AwaitAck } else { BState::AwaitRec };
            self.b_inflight.push(BIn { pid, state, publish: pb.clone() });
        }
        match split {
            Some((n, tail_at)) if bytes.len() >= 2 => {
                // head and tail of one packet become readable at different times
                let n = n.clamp(1, bytes.len() - 1);
                let off = tr.inbound.len();
                let idx = self.inbound.len();
                tr.push_inbound_at(at, &bytes[..n]);
                let eff = tr.push_inbound_at(tail_at, &bytes[n..]);
                self.inbound.push(InPkt { tr: tr.id, off, len: bytes.len(), packet: Some(Packet::Publish(pb)), bytes: bytes.clone(), at: eff });
                tr.release_due();
                self.log.borrow_mut().push(Event::Queued { tr: tr.id, idx });
            }
            _ => self.queue(tr, Some(Packet::Publish(pb)), bytes, Some(at)),
        }
    }

    fn alloc_bpid(&mut self) -> u16 {
        loop {
            let id = self.next_bpid;
            self.next_bpid = if id == u16::MAX { 1 } else { id + 1 };
            if !self.b_inflight.iter().any(|b| b.pid == id) {
                return id;
            }
        }
    }
}

/// Monotone index mapping (keeps proptest shrinking smooth).
pub fn map_index(sel: u16, len: usize) -> usize {
    debug_assert!(len > 0);
    ((sel as usize) * len) >> 16
}

/// Map an arbitrary "reason" byte to one that the specification allows for this acknowledgement.
pub fn legal_reason(kind: OutKind, r: u8) -> u8 {
    if r < 0x80 {
        return match kind {
            OutKind::Pub1 | OutKind::Pub2 if r == 0x10 => 0x10,
            OutKind::Sub(_) if r <= 2 => r,
            OutKind::Unsub(_) if r == 0x11 => 0x11,
            _ => 0,
        };
    }
    let set: &[u8] = match kind {
        OutKind::Pub1 | OutKind::Pub2 => &[0x80, 0x83, 0x87, 0x90, 0x91, 0x97, 0x99],
        OutKind::Rel => &[0x92],
        OutKind::Sub(_) => &[0x80, 0x83, 0x87, 0x8F, 0x91, 0x97, 0x9E, 0xA1, 0xA2],
        OutKind::Unsub(_) => &[0x80, 0x83, 0x87, 0x8F, 0x91],
    };
    set[(r as usize) % set.len()]
}

pub fn to_property(p: &Prop) -> Property<'_> {
    match p {
        Prop::PayloadFormat(v) => Property::PayloadFormatIndicator(*v),
        Prop::MessageExpiry(v) => Property::MessageExpiryInterval(*v),
        Prop::ContentType(s) => Property::ContentType(s),
        Prop::ResponseTopic(s) => Property::ResponseTopic(s),
        Prop::CorrelationData(b) => Property::CorrelationData(b),
        Prop::SubscriptionId(v) => Property::SubscriptionIdentifier(*v),
        Prop::SessionExpiry(v) => Property::SessionExpiryInterval(*v),
        Prop::AssignedClientId(s) => Property::AssignedClientIdentifier(s),
        Prop::ServerKeepAlive(v) => Property::ServerKeepAlive(*v),
        Prop::AuthMethod(s) => Property::AuthenticationMethod(s),
        Prop::AuthData(b) => Property::AuthenticationData(b),
        Prop::RequestProblemInfo(v) => Property::RequestProblemInformation(*v),
        Prop::WillDelay(v) => Property::WillDelayInterval(*v),
        Prop::RequestResponseInfo(v) => Property::RequestResponseInformation(*v),
        Prop::ResponseInfo(s) => Property::ResponseInformation(s),
        Prop::ServerReference(s) => Property::ServerReference(s),
        Prop::ReasonString(s) => Property::ReasonString(s),
        Prop::ReceiveMaximum(v) => Property::ReceiveMaximum(*v),
        Prop::TopicAliasMaximum(v) => Property::TopicAliasMaximum(*v),
        Prop::TopicAlias(v) => Property::TopicAlias(*v),
        Prop::MaximumQoS(v) => Property::MaximumQoS(*v),
        Prop::RetainAvailable(v) => Property::RetainAvailable(*v),
        Prop::UserProperty(k, v) => Property::UserProperty(k, v),
        Prop::MaximumPacketSize(v) => Property::MaximumPacketSize(*v),
        Prop::WildcardSubAvailable(v) => Property::WildcardSubscriptionAvailable(*v),
        Prop::SubIdAvailable(v) => Property::SubscriptionIdentifierAvailable(*v),
        Prop::SharedSubAvailable(v) => Property::SharedSubscriptionAvailable(*v),
    }
}

pub fn from_property(p: &Property<'_>) -> Prop {
    match p {
        Property::PayloadFormatIndicator(v) => Prop::PayloadFormat(*v),
        Property::MessageExpiryInterval(v) => Prop::MessageExpiry(*v),
        Property::ContentType(s) => Prop::ContentType(s.to_string()),
        Property::ResponseTopic(s) => Prop::ResponseTopic(s.to_string()),
        Property::CorrelationData(b) => Prop::CorrelationData(b.to_vec()),
        Property::SubscriptionIdentifier(v) => Prop::SubscriptionId(*v),
        Property::SessionExpiryInterval(v) => Prop::SessionExpiry(*v),
        Property::AssignedClientIdentifier(s) => Prop::AssignedClientId(s.to_string()),
        Property::ServerKeepAlive(v) => Prop::ServerKeepAlive(*v),
        Property::AuthenticationMethod(s) => Prop::AuthMethod(s.to_string()),
        Property::AuthenticationData(b) => Prop::AuthData(b.to_vec()),
        Property::RequestProblemInformation(v) => Prop::RequestProblemInfo(*v),
        Property::WillDelayInterval(v) => Prop::WillDelay(*v),
        Property::RequestResponseInformation(v) => Prop::RequestResponseInfo(*v),
        Property::ResponseInformation(s) => Prop::ResponseInfo(s.to_string()),
        Property::ServerReference(s) => Prop::ServerReference(s.to_string()),
        Property::ReasonString(s) => Prop::ReasonString(s.to_string()),
        Property::ReceiveMaximum(v) => Prop::ReceiveMaximum(*v),
        Property::TopicAliasMaximum(v) => Prop::TopicAliasMaximum(*v),
        Property::TopicAlias(v) => Prop::TopicAlias(*v),
        Property::MaximumQoS(v) => Prop::MaximumQoS(*v),
        Property::RetainAvailable(v) => Prop::RetainAvailable(*v),
        Property::UserProperty(k, v) => Prop::UserProperty(k.to_string(), v.to_string()),
        Property::MaximumPacketSize(v) => Prop::MaximumPacketSize(*v),
        Property::WildcardSubscriptionAvailable(v) => Prop::WildcardSubAvailable(*v),
        Property::SubscriptionIdentifierAvailable(v) => Prop::SubIdAvailable(*v),
        Property::SharedSubscriptionAvailable(v) => Prop::SharedSubAvailable(*v),
    }
}

pub fn qos_of(q: u8) -> QoS {
    match q {
        0 => QoS::AtMostOnce,
        1 => QoS::AtLeastOnce,
        _ => QoS::ExactlyOnce,
    }
}

pub fn sub_options(o: &rc::SubOpts) -> SubscriptionOptions {
    let mut s = SubscriptionOptions::default().maximum_qos(qos_of(o.qos));
    if o.no_local {
        s = s.ignore_local_messages();
    }
    if o.rap {
        s = s.retain_as_published();
    }
    s.retain_behavior(match o.retain_handling {
        0 => RetainHandling::Immediately,
        1 => RetainHandling::IfSubscriptionDoesNotExist,
        _ => RetainHandling::Never,
    })
}

pub fn copy_message(m: &InboundPublish<'_>) -> Delivered {
    // (bounded: a property takes at least two bytes, so no packet the harness ever delivers holds
    // more than 50 000 of them; an iterator that does not terminate must not eat the memory - and
    // then the accessors, which walk the same iterator inside the client, are not called at all)
    const CAP: usize = 50_000;
    let props: Vec<Result<Prop, ()>> = m.properties().iter().take(CAP).map(|r| r.map(|p| from_property(&p)).map_err(|_| ())).collect();
    let runaway = props.len() >= CAP;
    Delivered {
        topic: m.topic().to_string(),
        payload: m.payload().to_vec(),
        qos: m.qos() as u8,
        retain: m.retained(),
        response_topic: if runaway { None } else { m.response_topic().map(|s| s.to_string()) },
        correlation_data: if runaway { None } else { m.correlation_data().map(|s| s.to_vec()) },
        props,
    }
}

pub struct World {
    pub log: Log,
    pub broker: Broker,
    pub transports: Vec<Tr>,
    pub trace: Trace,
    pub ops_h: Vec<Op>,
    /// Flow-time configuration for `PollFor` steps: (jitter ticks)
    pub jitter: u64,
    pub max_polls: u32,
    /// Known finding D2b (DESIGN.md section 6): a disconnect() dropped after some of its bytes
    /// were accepted is excluded by construction unless a check asks for it.
    pub cancel_disconnect_midway: bool,
    pub excluded_disconnect_cancels: u32,
    pub tx_len: usize,
    pub cfg_downgrade: bool,
    guard_cancel: bool,
}

impl World {
    pub fn new(mode: BrokerMode) -> Self {
        let log: Log = Rc::new(RefCell::new(Vec::new()));
        Self {
            broker: Broker::new(mode, log.clone()),
            log,
            transports: Vec::new(),
            trace: Trace::default(),
            ops_h: Vec::new(),
            jitter: 0,
            max_polls: 6_000_000,
            cancel_disconnect_midway: false,
            cfg_downgrade: false,
            excluded_disconnect_cancels: 0,
            tx_len: 0,
            guard_cancel: false,
        }
    }

    pub fn ev(&self, e: Event) {
        self.log.borrow_mut().push(e);
    }

    pub fn new_transport(&mut self, spec: &ConnectSpec) -> (SimIo, Tr) {
        let id = self.transports.len();
        let mut t = Transport::new(id, self.log.clone());
        apply_io(&mut t, &spec.io);
        match &spec.handshake {
            Handshake::Fault(f) => t.faults.push(*f),
            Handshake::CancelAt(_) => t.pend_first = true,
            _ => {}
        }
        self.broker.new_transport(spec);
        let (io, tr) = SimIo::new(t);
        self.transports.push(tr.clone());
        (io, tr)
    }

    /// Run one future to completion under the scenario's control.
    pub fn run<F: std::future::Future>(
        &mut self,
        tr: &Tr,
        fut: F,
        cancel: Option<u16>,
        time: TimePolicy,
    ) -> (Outcome<F::Output>, u32, u32) {
        let broker = &mut self.broker;
        let tr2 = tr.clone();
        let mut hook = move || broker.pump(&mut tr2.borrow_mut());
        let mut ctl = RunCtl::new(tr);
        ctl.cancel_at = cancel.map(|c| c as u32 + 1);
        ctl.cancel_only_before_bytes = self.guard_cancel;
        ctl.time = time;
        ctl.max_polls = self.max_polls;
        ctl.on_pending = Some(&mut hook);
        let out = exec::run(fut, &mut ctl);
        let (polls, busy) = (ctl.polls, ctl.busy_repolls);
        self.excluded_disconnect_cancels += ctl.cancel_suppressed as u32;
        drop(ctl);
        self.guard_cancel = false;
        // the client may have written a complete packet in its last poll
        self.broker.pump(&mut tr.borrow_mut());
        if matches!(out, Outcome::Watchdog { .. }) {
            self.trace.watchdog = true;
        }
        (out, polls, busy)
    }

    pub fn sample<IO: minimq::Io>(&self, conn: Option<&Connection<'_, '_, IO>>, session: Option<&Session<'_>>) {
        let st = |p: bool, c: bool, i: bool| match (p, c, i) {
            (true, false, false) => HStatus::Pending,
            (false, true, false) => HStatus::Complete,
            (false, false, true) => HStatus::Invalidated,
            _ => HStatus::Inconsistent(p as u8 | (c as u8) << 1 | (i as u8) << 2),
        };
        let s = match (conn, session) {
            (Some(c), _) => Sample {
                connected: Some(c.is_connected()),
                can_publish: Some([
                    c.can_publish(QoS::AtMostOnce),
                    c.can_publish(QoS::AtLeastOnce),
                    c.can_publish(QoS::ExactlyOnce),
                ]),
                quiescent: c.session().is_publish_quiescent(),
                // the same question asked through the connection and through its session must get
                // the same answer (bit 6 marks a disagreement)
                handles: self
                    .ops_h
                    .iter()
                    .map(|o| {
                        let via_conn = st(c.is_pending(o), c.is_complete(o), c.is_invalidated(o));
                        let s = c.session();
                        let via_session = st(s.is_pending(o), s.is_complete(o), s.is_invalidated(o));
                        if via_conn == via_session { via_conn } else { HStatus::Inconsistent(0x40) }
                    })
                    .collect(),
            },
            (None, Some(s)) => Sample {
                connected: None,
                can_publish: None,
                quiescent: s.is_publish_quiescent(),
                handles: self.ops_h.iter().map(|o| st(s.is_pending(o), s.is_complete(o), s.is_invalidated(o))).collect(),
            },
            _ => return,
        };
        self.ev(Event::Sample(s));
    }
}

pub fn apply_io(t: &mut Transport, io: &IoCfg) {
    t.read_chunks = Chunker::new(io.read_chunks.clone());
    t.write_chunks = Chunker::new(io.write_chunks.clone());
    t.read_cuts = io.read_cuts.iter().map(|c| *c as usize).collect();
    t.pend_first = io.pend_first;
}

fn conn_res<T, E>(o: &Outcome<Result<T, minimq::Error<E>>>, ev: impl Fn(&T) -> ConnectEvent) -> ConnRes {
    match o {
        Outcome::Done(Ok(c)) => match ev(c) {
            ConnectEvent::Connected => ConnRes::Connected,
            ConnectEvent::Reconnected => ConnRes::Reconnected,
        },
        Outcome::Done(Err(e)) => ConnRes::Err(ErrKind::from_err(e)),
        Outcome::Cancelled { awaits } => ConnRes::Cancelled { awaits: *awaits },
        Outcome::Blocked { awaits } => ConnRes::Blocked { awaits: *awaits },
        Outcome::Watchdog { .. } => ConnRes::Watchdog,
    }
}

struct OpCtx {
    op: usize,
    touches0: u64,
    io0: u64,
    t0: u64,
}

impl World {
    fn op_start(&mut self, tr: &Tr, step: (usize, usize), kind: OpKind, request: Option<Request>) -> OpCtx {
        let op = self.trace.ops.len();
        let (touches0, io0, id) = {
            let t = tr.borrow();
            (t.touches, t.io_calls, t.id)
        };
        let req = request.map(|mut r| {
            r.op = op;
            self.trace.requests.push(r);
            self.trace.requests.len() - 1
        });
        self.trace.ops.push(OpRec {
            tr: id,
            step,
            kind,
            res: OpRes::Ok,
            request: req,
            touches: (touches0, touches0),
            polls: 0,
            busy_repolls: 0,
            io_calls: (io0, io0),
            t: (clock::now(), clock::now()),
        });
        self.ev(Event::OpStart { tr: id, step, kind, op });
        OpCtx { op, touches0, io0, t0: clock::now() }
    }

    fn op_end(&mut self, tr: &Tr, cx: OpCtx, res: OpRes, polls: u32, busy: u32) {
        let (touches1, io1, id) = {
            let t = tr.borrow();
            (t.touches, t.io_calls, t.id)
        };
        {
            // tell the broker model what the client may retain without the broker knowing
            let r = &self.trace.ops[cx.op];
            let id_bearing = matches!(r.kind, OpKind::Subscribe | OpKind::Unsubscribe)
                || (r.kind == OpKind::Publish && r.request.is_some_and(|q| self.trace.requests[q].qos > 0));
            if id_bearing {
                match &res {
                    OpRes::Handle(_) => self.broker.accepted_requests += 1,
                    OpRes::Cancelled { .. } => self.broker.epoch_uncertain = true,
                    OpRes::Err(e) => {
                        if !matches!(e, ErrKind::NotReady | ErrKind::InvalidRequest | ErrKind::PacketTooLarge | ErrKind::BufferTooSmall | ErrKind::InflightExhausted | ErrKind::Disconnected | ErrKind::Payload) {
                            self.broker.epoch_uncertain = true;
                        }
                    }
                    _ => {}
                }
            }
        }
        let r = &mut self.trace.ops[cx.op];
        r.res = res.clone();
        r.touches = (cx.touches0, touches1);
        r.io_calls = (cx.io0, io1);
        r.polls += polls;
        r.busy_repolls += busy;
        r.t = (cx.t0, clock::now());
        self.ev(Event::OpEnd { tr: id, op: cx.op, res });
    }

    fn message(&mut self, tr: &Tr, op: usize, d: Delivered) -> usize {
        let idx = self.trace.deliveries.len();
        self.trace.deliveries.push(d);
        self.ev(Event::Delivery { tr: tr.borrow().id, op, msg: idx });
        idx
    }
}

fn res_of<T, E>(o: &Outcome<Result<T, minimq::Error<E>>>) -> Option<OpRes> {
    match o {
        Outcome::Done(Ok(_)) => None,
        Outcome::Done(Err(e)) => Some(OpRes::Err(ErrKind::from_err(e))),
        Outcome::Cancelled { awaits } => Some(OpRes::Cancelled { awaits: *awaits }),
        Outcome::Blocked { awaits } => Some(OpRes::Blocked { awaits: *awaits }),
        Outcome::Watchdog { .. } => Some(OpRes::Watchdog),
    }
}

/// The reference form of a publish request.
pub fn publish_request(spec: &PubSpec) -> rc::Publish {
    let mut props: Vec<Prop> = Vec::new();
    // minimq documents correlate() as an attached property; order among properties is not
    // specified, monitors compare property lists as multisets.
    if let Some(c) = &spec.correlate {
        props.push(Prop::CorrelationData(c.clone()));
    }
    props.extend(spec.props.iter().cloned());
    rc::Publish {
        dup: false,
        qos: spec.qos,
        retain: spec.retain,
        topic: spec.topic.name(),
        pid: None,
        props,
        payload: spec.payload.bytes(),
    }
}

/// Interpret one case. Never panics because of the client: panics are caught and recorded.
pub fn run_case(case: &Case) -> Trace {
    run_case_with(case, |_| {})
}

pub fn run_case_with(case: &Case, tweak: impl FnOnce(&mut World)) -> Trace {
    clock::reset();
    let mut w = World::new(case.broker);
    w.jitter = case.cfg.jitter_us;
    w.tx_len = case.cfg.tx;
    w.broker.ping_delays = case.cfg.ping_delays_us.clone();
    w.broker.unconditional_limits = case.cfg.unconditional_limits;
    tweak(&mut w);
    let r = std::panic::catch_unwind(std::panic::AssertUnwindSafe(|| interpret(case, &mut w)));
    if let Err(p) = r {
        let msg = if let Some(s) = p.downcast_ref::<&str>() {
            s.to_string()
        } else if let Some(s) = p.downcast_ref::<String>() {
            s.clone()
        } else {
            "panic".to_string()
        };
        let loc = crate::LAST_PANIC_LOC.with(|l| l.borrow().clone());
        if msg.contains("HARNESS-WATCHDOG") {
            w.trace.watchdog = true;
        } else {
            w.trace.panic = Some(format!("{msg} @ {loc}"));
        }
    }
    let mut trace = std::mem::take(&mut w.trace);
    trace.events = std::mem::take(&mut *w.log.borrow_mut());
    trace.out = w.transports.iter().map(|t| t.borrow().out.clone()).collect();
    trace.inb = w.transports.iter().map(|t| t.borrow().inbound.clone()).collect();
    trace.inbound = std::mem::take(&mut w.broker.inbound);
    trace.now_calls = clock::now_calls();
    trace.mps_shrinks = (w.broker.mps_shrinks_applied, w.broker.mps_shrinks_withheld);
    trace
}

fn interpret(case: &Case, w: &mut World) {
    let cfg = &case.cfg;
    w.cfg_downgrade = cfg.downgrade;
    let mut rx = vec![0u8; cfg.rx];
    let mut tx = vec![0u8; cfg.tx];
    let will_topic = cfg.will.as_ref().map(|wl| wl.topic.name());
    let will_payload = cfg.will.as_ref().map(|wl| wl.payload.bytes());
    let will_props: Vec<Property<'_>> =
        cfg.will.as_ref().map(|wl| wl.props.iter().map(to_property).collect()).unwrap_or_default();
    let mut builder = ConfigBuilder::new(Buffers::new(&mut rx, &mut tx))
        .client_id(&cfg.client_id)
        .expect("client id fits")
        .keepalive_interval(cfg.keepalive)
        .session_expiry_interval(cfg.session_expiry);
    if cfg.downgrade {
        builder = builder.autodowngrade_qos();
    }
    if let Some((u, p)) = &cfg.auth {
        builder = builder.auth(u, p).expect("auth once");
    }
    if let Some(wl) = &cfg.will {
        let mut will = match minimq::Will::new(will_topic.as_ref().unwrap(), will_payload.as_ref().unwrap(), &will_props) {
            Ok(w) => w,
            Err(e) => {
                w.trace.config_error = Some(format!("{e:?}"));
                return;
            }
        }
        .qos(qos_of(wl.qos));
        if wl.retain {
            will = will.retained();
        }
        builder = builder.will(will).expect("will once");
    }
    let mut session = Session::new(builder);

    for (ci, cs) in case.conns.iter().enumerate() {
        let (io, tr) = w.new_transport(&cs.connect);
        let trid = tr.borrow().id;
        w.ev(Event::ConnStart { tr: trid, conn: ci });
        let cancel = match cs.connect.handshake {
            Handshake::CancelAt(k) => Some(k),
            _ => None,
        };
        let (out, _, _) = w.run(&tr, session.connect(io), cancel, TimePolicy::Frozen);
        let res = conn_res(&out, |c: &Connection<'_, '_, SimIo>| c.connect_event());
        w.trace.conns.push((trid, res));
        w.ev(Event::ConnEnd { tr: trid, res });
        match res {
            ConnRes::Connected => w.broker.client_connected(true),
            ConnRes::Reconnected => w.broker.client_connected(false),
            _ => {}
        }
        let mut conn = match out {
            Outcome::Done(Ok(c)) => c,
            _ => {
                drop(out);
                w.sample::<SimIo>(None, Some(&session));
                continue;
            }
        };
        w.sample(Some(&conn), None);
        for (si, step) in cs.steps.iter().enumerate() {
            do_step(w, &tr, &mut conn, (ci, si), step);
            w.sample(Some(&conn), None);
            if w.trace.watchdog {
                break;
            }
        }
        match cs.end {
            EndHow::Drop => drop(conn),
            EndHow::Forget => std::mem::forget(conn),
            EndHow::IntoInner => {
                let _io = conn.into_inner();
            }
        }
        w.ev(Event::HandleEnd { tr: trid, how: cs.end });
        w.sample::<SimIo>(None, Some(&session));
        if w.trace.watchdog {
            break;
        }
    }
}

#[allow(clippy::too_many_arguments)]
fn publish_via<'a, P: minimq::ToPayload>(
    w: &mut World,
    tr: &Tr,
    conn: &mut Connection<'_, '_, SimIo>,
    mut p: Publication<'a, P>,
    spec: &'a PubSpec,
    props: &'a [Property<'a>],
    cancel: Option<u16>,
    op: usize,
) -> (OpRes, u32, u32) {
    p = p.qos(qos_of(spec.qos));
    if spec.retain {
        p = p.retain();
    }
    if !props.is_empty() {
        p = p.properties(props);
    }
    if let Some(c) = &spec.correlate {
        p = p.correlate(c);
    }
    let (out, polls, busy) = w.run(tr, conn.publish(p), cancel, TimePolicy::Frozen);
    let res = match out {
        Outcome::Done(Ok(Some(h))) => {
            w.trace.handle_debug.push(format!("{h:?}"));
            w.ops_h.push(h);
            w.trace.handles.push(op);
            OpRes::Handle(w.ops_h.len() - 1)
        }
        Outcome::Done(Ok(None)) => OpRes::Ok,
        Outcome::Done(Err(e)) => OpRes::Err(ErrKind::from_pub(&e)),
        Outcome::Cancelled { awaits } => OpRes::Cancelled { awaits },
        Outcome::Blocked { awaits } => OpRes::Blocked { awaits },
        Outcome::Watchdog { .. } => OpRes::Watchdog,
    };
    (res, polls, busy)
}

fn do_step(w: &mut World, tr: &Tr, conn: &mut Connection<'_, '_, SimIo>, at: (usize, usize), step: &Step) {
    match step {
        Step::Publish(spec) => {
            let topic = spec.topic.name();
            let payload = spec.payload.bytes();
            let props: Vec<Property<'_>> = spec.props.iter().map(to_property).collect();
            let req = Request {
                op: 0,
                kind: OpKind::Publish,
                packet: Some(Packet::Publish(publish_request(spec))),
                qos: spec.qos,
            };
            let cx = w.op_start(tr, at, OpKind::Publish, Some(req));
            // QoS 0 publish is documented as not cancel-safe: never cancelled by the harness. With
            // auto-downgrade a QoS 1/2 request becomes such a publish under Maximum QoS 0.
            let downgraded_to_0 = w.cfg_downgrade && w.broker.announced_max_qos == Some(0);
            let cancel = if spec.qos == 0 || downgraded_to_0 { None } else { spec.cancel };
            let text = std::str::from_utf8(&payload).ok();
            let (res, polls, busy) = match (spec.via, text) {
                (1, _) => {
                    let pl = &payload;
                    let f = move |buf: &mut [u8]| -> Result<usize, ()> {
                        buf.fill(0xEE);
                        if buf.len() < pl.len() {
                            return Err(());
                        }
                        buf[..pl.len()].copy_from_slice(pl);
                        Ok(pl.len())
                    };
                    publish_via(w, tr, conn, Publication::new(&topic, f), spec, &props, cancel, cx.op)
                }
                (3, _) => {
                    let f = |buf: &mut [u8]| -> Result<usize, ()> {
                        buf.fill(0xEE);
                        Err(())
                    };
                    publish_via(w, tr, conn, Publication::new(&topic, f), spec, &props, cancel, cx.op)
                }
                (2, Some(t)) => publish_via(w, tr, conn, Publication::text(&topic, t), spec, &props, cancel, cx.op),
                _ => publish_via(w, tr, conn, Publication::bytes(&topic, &payload), spec, &props, cancel, cx.op),
            };
            w.op_end(tr, cx, res, polls, busy);
        }
        Step::Subscribe { filters, props, cancel } => {
            let names: Vec<String> = filters.iter().map(|f| f.0.filter()).collect();
            let tf: Vec<TopicFilter<'_>> =
                names.iter().zip(filters).map(|(n, f)| TopicFilter::new(n).options(sub_options(&f.1))).collect();
            let mprops: Vec<Property<'_>> = props.iter().map(to_property).collect();
            let req = Request {
                op: 0,
                kind: OpKind::Subscribe,
                packet: Some(Packet::Subscribe {
                    pid: 0,
                    props: props.clone(),
                    filters: names.iter().cloned().zip(filters.iter().map(|f| f.1)).collect(),
                }),
                qos: 0,
            };
            let cx = w.op_start(tr, at, OpKind::Subscribe, Some(req));
            let (out, polls, busy) = w.run(tr, conn.subscribe(&tf, &mprops), *cancel, TimePolicy::Frozen);
            let res = handle_res(w, cx.op, out);
            w.op_end(tr, cx, res, polls, busy);
        }
        Step::Unsubscribe { filters, props, cancel } => {
            let names: Vec<String> = filters.iter().map(|f| f.filter()).collect();
            let refs: Vec<&str> = names.iter().map(|s| s.as_str()).collect();
            let mprops: Vec<Property<'_>> = props.iter().map(to_property).collect();
            let req = Request {
                op: 0,
                kind: OpKind::Unsubscribe,
                packet: Some(Packet::Unsubscribe { pid: 0, props: props.clone(), filters: names.clone() }),
                qos: 0,
            };
            let cx = w.op_start(tr, at, OpKind::Unsubscribe, Some(req));
            let (out, polls, busy) = w.run(tr, conn.unsubscribe(&refs, &mprops), *cancel, TimePolicy::Frozen);
            let res = handle_res(w, cx.op, out);
            w.op_end(tr, cx, res, polls, busy);
        }
        Step::Poll { cancel } => {
            poll_once(w, tr, conn, at, OpKind::Poll, *cancel, TimePolicy::Frozen);
        }
        Step::Recv { cancel } => {
            poll_once(w, tr, conn, at, OpKind::Recv, *cancel, TimePolicy::Frozen);
        }
        Step::Drive { cancel } => {
            poll_once(w, tr, conn, at, OpKind::Drive, *cancel, TimePolicy::Frozen);
        }
        Step::PollIdle { max } => {
            for _ in 0..(*max).max(1) {
                let r = poll_once(w, tr, conn, at, OpKind::Poll, None, TimePolicy::Frozen);
                match r {
                    OpRes::Ok | OpRes::Message(_) => {}
                    OpRes::Err(ErrKind::Rejected(_)) => {}
                    _ => break,
                }
            }
        }
        Step::Disconnect { reason, props, cancel } => {
            let mprops: Option<Vec<Property<'_>>> = props.as_ref().map(|p| p.iter().map(to_property).collect());
            let mut d = match reason {
                None => Disconnect::success(),
                Some(r) => Disconnect::with_reason(ReasonCode::from(*r)),
            };
            if let Some(p) = &mprops {
                d = d.with_properties(p);
            }
            let ref_reason = match (reason, props) {
                (None, None) => None,
                (None, Some(_)) => Some(0),
                (Some(r), _) => Some(*r),
            };
            let req = Request {
                op: 0,
                kind: OpKind::Disconnect,
                packet: Some(Packet::Disconnect { reason: ref_reason, props: props.clone() }),
                qos: 0,
            };
            let cx = w.op_start(tr, at, OpKind::Disconnect, Some(req));
            w.guard_cancel = !w.cancel_disconnect_midway;
            let (out, polls, busy) = w.run(tr, conn.disconnect_with(d), *cancel, TimePolicy::Frozen);
            let res = res_of(&out).unwrap_or(OpRes::Ok);
            w.op_end(tr, cx, res, polls, busy);
        }
        Step::Broker(act) => {
            w.broker.pump(&mut tr.borrow_mut());
            w.broker.act(&mut tr.borrow_mut(), act);
        }
        Step::SetIo(io) => apply_io(&mut tr.borrow_mut(), io),
        Step::FaultAt { delta, eof } => {
            let mut t = tr.borrow_mut();
            let at_call = t.io_calls as u32 + *delta as u32;
            t.faults.push(Fault { at_call, eof: *eof });
        }
        Step::Eof => tr.borrow_mut().eof = true,
        Step::PublishFill { qos, slack, seed } => {
            let len = w.tx_len.saturating_sub(8 + *slack as usize) as u32;
            let spec = PubSpec::simple(*qos, 1, len, *seed);
            do_step(w, tr, conn, at, &Step::Publish(spec));
        }
        Step::SetBroker(mode) => {
            w.broker.pump(&mut tr.borrow_mut());
            w.broker.mode = *mode;
            if *mode == BrokerMode::AutoAck {
                // a responsive broker also answers what it had left unanswered so far
                if w.broker.ping_unanswered {
                    w.broker.ping_unanswered = false;
                    w.broker.act(&mut tr.borrow_mut(), &BrokerAct::PingResp);
                }
                w.broker.act(&mut tr.borrow_mut(), &BrokerAct::AckAll { reverse: false });
                w.broker.release_all(&mut tr.borrow_mut());
                w.broker.resend_inflight(&mut tr.borrow_mut());
            }
        }
        Step::PollFor { ms } => {
            let end = clock::now() + *ms as u64 * clock::TICKS_PER_MS;
            let mut guard = 0u32;
            loop {
                guard += 1;
                if guard > 2_000_000 {
                    w.trace.watchdog = true;
                    break;
                }
                let r = poll_once(w, tr, conn, at, OpKind::Poll, None, TimePolicy::Flow { jitter: w.jitter, horizon: end });
                match r {
                    OpRes::Ok | OpRes::Message(_) | OpRes::Err(ErrKind::Rejected(_)) => {}
                    _ => break,
                }
            }
        }
        Step::DeliverAt { delay_ms, qos, payload, split } => {
            w.broker.pump(&mut tr.borrow_mut());
            let at = clock::now() + *delay_ms as u64 * clock::TICKS_PER_MS;
            let split = split.map(|(n, tail_ms)| {
                let tail = if tail_ms == u32::MAX { u64::MAX / 4 } else { at + tail_ms as u64 * clock::TICKS_PER_MS };
                (n as usize, tail)
            });
            w.broker.deliver_at(&mut tr.borrow_mut(), at, *qos, payload, split);
        }
        Step::Burn { n } => {
            let mut done = 0u32;
            for _ in 0..*n {
                if conn.can_publish(QoS::AtLeastOnce) {
                    break;
                }
                let p = Publication::bytes("b", &[]).qos(QoS::AtLeastOnce);
                let mut ctl = RunCtl::new(tr);
                let out = exec::run(conn.publish(p), &mut ctl);
                match out {
                    Outcome::Done(Err(minimq::PubError::Session(
                        minimq::Error::NotReady | minimq::Error::Resource(minimq::ResourceError::InflightExhausted),
                    ))) => done += 1,
                    _ => break,
                }
            }
            w.ev(Event::Burn { n: done });
        }
        Step::Advance { ms } => {
            clock::advance(*ms as u64 * clock::TICKS_PER_MS);
            tr.borrow_mut().release_due();
            w.ev(Event::Advance { to: clock::now() });
        }
    }
}

fn handle_res<E>(w: &mut World, op: usize, out: Outcome<Result<Op, minimq::Error<E>>>) -> OpRes {
    match out {
        Outcome::Done(Ok(h)) => {
            w.trace.handle_debug.push(format!("{h:?}"));
            w.ops_h.push(h);
            w.trace.handles.push(op);
            OpRes::Handle(w.ops_h.len() - 1)
        }
        other => res_of(&other).unwrap(),
    }
}

pub fn poll_once(
    w: &mut World,
    tr: &Tr,
    conn: &mut Connection<'_, '_, SimIo>,
    at: (usize, usize),
    kind: OpKind,
    cancel: Option<u16>,
    time: TimePolicy,
) -> OpRes {
    let cx = w.op_start(tr, at, kind, None);
    let op = cx.op;
    let (res, polls, busy) = match kind {
        OpKind::Recv => {
            let (out, polls, busy) = w.run(tr, conn.recv(), cancel, time);
            let r = match &out {
                Outcome::Done(Ok(m)) => {
                    let d = copy_message(m);
                    OpRes::Message(w.message(tr, op, d))
                }
                other => res_of_ref(other),
            };
            (r, polls, busy)
        }
        OpKind::Drive => {
            let (out, polls, busy) = w.run(tr, conn.drive(), cancel, time);
            let r = match &out {
                Outcome::Done(Ok(Some(m))) => {
                    let d = copy_message(m);
                    OpRes::Message(w.message(tr, op, d))
                }
                Outcome::Done(Ok(None)) => OpRes::Ok,
                other => res_of_opt(other),
            };
            (r, polls, busy)
        }
        _ => {
            let (out, polls, busy) = w.run(tr, conn.poll(), cancel, time);
            let r = match &out {
                Outcome::Done(Ok(Some(m))) => {
                    let d = copy_message(m);
                    OpRes::Message(w.message(tr, op, d))
                }
                Outcome::Done(Ok(None)) => OpRes::Ok,
                other => res_of_opt(other),
            };
            (r, polls, busy)
        }
    };
    w.op_end(tr, cx, res.clone(), polls, busy);
    res
}

fn res_of_ref<T, E>(o: &Outcome<Result<T, minimq::Error<E>>>) -> OpRes {
    res_of(o).unwrap_or(OpRes::Ok)
}

fn res_of_opt<T, E>(o: &Outcome<Result<Option<T>, minimq::Error<E>>>) -> OpRes {
    res_of(o).unwrap_or(OpRes::Ok)
}
