//! Verification harness for quartiq/minimq: simulated transport + virtual clock + reference
//! broker + scenario interpreter + per-property monitors (property-based testing and fuzzing).

pub mod cgen;
pub mod model;
pub mod props;
pub mod refcodec;
pub mod runner;
pub mod scenario;
pub mod sim;
pub mod trace;
pub mod ugen;
pub mod view;
pub mod world;

use std::cell::RefCell;

thread_local! {
    pub static LAST_PANIC_LOC: RefCell<String> = const { RefCell::new(String::new()) };
}

/// Install a quiet panic hook that remembers where the last panic happened (per thread).
pub fn install_panic_hook() {
    std::panic::set_hook(Box::new(|info| {
        let loc = info.location().map(|l| format!("{}:{}", l.file(), l.line())).unwrap_or_default();
        LAST_PANIC_LOC.with(|l| *l.borrow_mut() = loc);
    }));
}

pub fn case_to_json(case: &scenario::Case) -> String {
    serde_json::to_string(case).unwrap_or_default()
}

/// One-line replay file (`vcheck <prop> --replay <file>`) for an input found by a fuzz target.
pub fn replay_json<T: serde::Serialize>(kind: &str, prop: &str, sig: &str, input: &T) -> String {
    serde_json::json!({"kind": kind, "property": prop, "signature": sig, "found_by": "libFuzzer", "input": input}).to_string()
}
