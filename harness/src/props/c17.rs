//! C17 — transmit arena: retained packets stay intact and capacity is fully recovered.
//!
//! (i) every retransmission equals the first transmission except for the DUP bit (history model,
//!     rule C17/retransmission-differs) over long histories on arenas from tiny to large with
//!     arbitrary ack orders, interleaved QoS 0 and CONNECT traffic;
//! (ii) after everything has been acknowledged, a probe sweep gives exactly the same accept/reject
//!     results as a brand-new session of the same configuration and build (differential twin).

use crate::cgen::{self, Profile};
use crate::model::{Model, Violation};
use crate::refcodec::SubOpts;
use crate::runner::*;
use crate::scenario::*;
use crate::trace::*;
use crate::view::View;
use crate::world::run_case;
use proptest::prelude::*;

fn profile(tx: usize, long: bool) -> Profile {
    Profile {
        conns: (1, 3),
        steps: if long { (40, 400) } else { (10, 120) },
        rx: (64, 128),
        tx: (tx, tx),
        handshake_failures: 0,
        cancels: true,
        faults: true,
        partial_io: true,
        pend_first_pct: 30,
        keep_session_pct: 88,
        auto_broker_pct: 0,
        w_pub: [4, 9, 7],
        w_sub: 2,
        w_unsub: 2,
        w_poll: 8,
        w_idle: 4,
        w_recv: 0,
        w_drive: 1,
        w_ack: 12,
        w_ackall: 2,
        w_stale: 0,
        w_deliver: 2,
        w_redeliver: 0,
        w_pubrel: 1,
        w_disconnect: 0,
        w_server_disconnect: 0,
        w_setio: 1,
        w_fault: 1,
        w_eof: 0,
        w_fill: 3,
        fail_reason_pct: 8,
        rm: vec![None, None, Some(1), Some(2), Some(5), Some(65535)],
        vary_rm_pct: 60,
        payload_max: (tx as u32).saturating_sub(10).max(4),
        topic_max: 6,
        pub_props: true,
        end_forget_pct: 10,
        ..Profile::default()
    }
}

fn probe_steps(tx: usize) -> Vec<Step> {
    let so = SubOpts { qos: 1, no_local: false, rap: false, retain_handling: 0 };
    // marker: the only PollIdle with max 200 in a case
    let mut steps = vec![Step::SetIo(IoCfg::default()), Step::SetBroker(BrokerMode::AutoAck), Step::PollIdle { max: 200 }];
    let t = tx as u32;
    let mut ladder: Vec<u32> = vec![0, 1, t / 8, t / 4, t / 2, t.saturating_sub(40), t.saturating_sub(20), t.saturating_sub(14), t.saturating_sub(12), t.saturating_sub(10), t.saturating_sub(8), t.saturating_sub(6), t];
    ladder.dedup();
    for (i, s) in ladder.iter().enumerate() {
        steps.push(Step::Publish(PubSpec::simple(1, 1, *s, i as u8)));
        steps.push(Step::PollIdle { max: 20 });
        steps.push(Step::Publish(PubSpec::simple(0, 1, *s, i as u8)));
        steps.push(Step::Publish(PubSpec::simple(2, 1, *s, i as u8)));
        steps.push(Step::PollIdle { max: 20 });
    }
    // how many minimal packets can be retained at once
    steps.push(Step::SetBroker(BrokerMode::Scripted));
    for i in 0..12u8 {
        steps.push(Step::Publish(PubSpec::simple(1, 1, 0, i)));
    }
    steps.push(Step::SetBroker(BrokerMode::AutoAck));
    steps.push(Step::PollIdle { max: 60 });
    steps.push(Step::SetBroker(BrokerMode::Scripted));
    for i in 0..12u8 {
        steps.push(Step::Subscribe { filters: vec![(TopicSpec::new(1, i & 0xfc), so)], props: vec![], cancel: None });
    }
    steps.push(Step::SetBroker(BrokerMode::AutoAck));
    steps.push(Step::PollIdle { max: 60 });
    steps
}

fn probe_script(first: &ConnectSpec, tx: usize) -> ConnScript {
    ConnScript {
        connect: ConnectSpec { handshake: Handshake::Accept, keep_session: true, props: ConnackProps { receive_max: None, ..first.props.clone() }, io: IoCfg::default(), lost_pubrecs: false },
        steps: probe_steps(tx),
        end: EndHow::Drop,
    }
}

/// (connection, index of the probe's first step): the probe either is a connection of its own or
/// continues the last connection of the history (a reconnect re-packs the arena and would hide
/// capacity that is only lost until then).
fn probe_at(case: &Case) -> (usize, usize) {
    let ci = case.conns.len() - 1;
    let si = case.conns[ci].steps.iter().position(|s| matches!(s, Step::PollIdle { max: 200 })).map(|p| p.saturating_sub(2)).unwrap_or(0);
    (ci, si)
}

pub fn strategy(long: bool) -> BoxedStrategy<Case> {
    let tx = prop_oneof![
        3 => 36usize..64,
        3 => 64usize..200,
        2 => 200usize..1000,
        1 => 1000usize..4096,
    ];
    tx.prop_flat_map(move |tx| {
        let p = profile(tx, long);
        (cgen::case(&p), prop::collection::vec(any::<bool>(), 3), any::<bool>())
    })
    .prop_map(|(mut case, drains, same_conn)| {
        for (i, cs) in case.conns.iter_mut().enumerate() {
            if drains[i % drains.len()] {
                cs.steps.push(Step::Broker(BrokerAct::AckAll { reverse: i % 2 == 1 }));
                cs.steps.push(Step::PollIdle { max: 60 });
            }
        }
        let tx = case.cfg.tx;
        let last_alive = case.conns.last().is_some_and(|c| {
            c.connect.handshake == Handshake::Accept && !c.steps.iter().any(|s| matches!(s, Step::Eof | Step::FaultAt { .. } | Step::Disconnect { .. } | Step::Broker(BrokerAct::Disconnect { .. })))
        });
        if same_conn && last_alive {
            let last = case.conns.last_mut().unwrap();
            last.steps.extend(probe_steps(tx));
            last.end = EndHow::Drop;
        } else {
            let probe = probe_script(&case.conns[0].connect, tx);
            case.conns.push(probe);
        }
        case
    })
    .boxed()
}

pub struct Out {
    pub violations: Vec<Violation>,
    pub ops_before_probe: usize,
    pub replay_after_ooo_ack: bool,
    pub probed: bool,
    pub watchdog: bool,
}

fn probe_view(trace: &Trace, conn_idx: usize, from: usize) -> Vec<(OpKind, (usize, usize), OpRes)> {
    trace
        .ops
        .iter()
        .filter(|o| o.step.0 == conn_idx && o.step.1 >= from && !matches!(o.kind, OpKind::Poll))
        .map(|o| {
            let r = match &o.res {
                OpRes::Handle(_) => OpRes::Handle(0),
                other => other.clone(),
            };
            (o.kind, (0, o.step.1 - from), r)
        })
        .collect()
}

fn probe_samples(trace: &Trace, tr: usize) -> Vec<(Option<[bool; 3]>, bool)> {
    let mut cur = None;
    let mut out = Vec::new();
    for e in &trace.events {
        match e {
            Event::ConnStart { tr: t, .. } => cur = Some(*t),
            Event::Sample(s) if cur == Some(tr) && s.connected.is_some() => out.push((s.can_publish, s.quiescent)),
            _ => {}
        }
    }
    out
}

pub fn eval(case: &Case) -> Out {
    let trace = run_case(case);
    let view = View::build(&trace);
    let (mv, stats) = Model::run(case, &view);
    let mut v: Vec<Violation> = mv.into_iter().filter(|x| x.prop == "C17" || x.prop == "PANIC").collect();
    let (fin_idx, from) = probe_at(case);
    let mut out = Out {
        violations: vec![],
        ops_before_probe: trace.ops.iter().filter(|o| o.step.0 < fin_idx || (o.step.0 == fin_idx && o.step.1 < from)).count(),
        replay_after_ooo_ack: stats.acks_out_of_order > 0 && stats.replays > 0,
        probed: false,
        watchdog: trace.watchdog,
    };
    let complete = trace.conns.len() == case.conns.len() && trace.conns.last().is_some_and(|c| c.1.is_ok());
    if complete && !trace.watchdog {
        let fin_tr = trace.conns.len() - 1;
        let mut twin_conn = case.conns[fin_idx].clone();
        twin_conn.steps.drain(..from);
        twin_conn.connect.io = IoCfg::default();
        twin_conn.connect.handshake = Handshake::Accept;
        // the same CONNACK: a planned smaller Maximum Packet Size may have been withheld
        twin_conn.connect.props.max_packet = trace.announced_max_packet(fin_tr);
        let twin_case = Case { cfg: case.cfg.clone(), broker: BrokerMode::Scripted, conns: vec![twin_conn] };
        let twin = run_case(&twin_case);
        if twin.conns.first().is_some_and(|c| c.1.is_ok()) {
            // the drain must have brought the session to quiescence (else this is C16's business)
            let drained = trace
                .ops
                .iter()
                .filter(|o| o.step == (fin_idx, from + 2))
                .last()
                .is_some_and(|o| matches!(o.res, OpRes::Blocked { .. }));
            if drained {
                out.probed = true;
                let mine = probe_view(&trace, fin_idx, from);
                let theirs = probe_view(&twin, 0, 0);
                if mine != theirs {
                    let i = mine.iter().zip(theirs.iter()).position(|(a, b)| a != b).unwrap_or(mine.len().min(theirs.len()));
                    let step = mine.get(i).map(|m| m.1 .1).unwrap_or(0);
                    v.push(Violation {
                        prop: "C17",
                        sig: "C17/capacity-differs-from-fresh-session".into(),
                        detail: format!(
                            "after everything was acknowledged, probe step {step} ({:?}) returned {:?} on the session that lived through the history, but {:?} on a brand-new session (tx arena {} bytes)",
                            case.conns[fin_idx].steps.get(step + from),
                            mine.get(i).map(|m| &m.2),
                            theirs.get(i).map(|m| &m.2),
                            case.cfg.tx
                        ),
                    });
                } else {
                    let a = probe_samples(&trace, fin_tr);
                    let b = probe_samples(&twin, 0);
                    // compare from the end of the drain on (same number of steps afterwards)
                    let n = a.len().min(b.len());
                    if a[a.len() - n + 3.min(n)..] != b[b.len() - n + 3.min(n)..] {
                        v.push(Violation { prop: "C17", sig: "C17/capacity-predicates-differ-from-fresh-session".into(), detail: "can_publish()/is_publish_quiescent() during the probe sweep differ from a brand-new session".into() });
                    }
                }
            }
        }
    }
    out.violations = v;
    out
}

pub fn run(ctx: &Ctx) -> i32 {
    let cases = ctx.tier.pick(24_000, 600_000);
    let long = ctx.tier == Tier::Thorough;
    let agg = run_prop(ctx, "case-c17", 16, cases, move || strategy(long), |case: &Case| {
        let o = eval(case);
        let mut classes = Vec::new();
        if o.probed {
            classes.push("probe-sweep-compared");
        }
        if o.replay_after_ooo_ack {
            classes.push("replay-after-out-of-order-ack");
        }
        if o.ops_before_probe >= 100 {
            classes.push("100+-ops-before-probe");
        }
        if case.cfg.tx < 64 {
            classes.push("tiny-arena");
        }
        Eval { nontrivial: o.probed && (o.replay_after_ooo_ack || o.ops_before_probe >= 100), violations: o.violations, classes, watchdog: o.watchdog }
    });
    finish(
        ctx,
        agg,
        Report {
            level: "exploration",
            rule: "histories of 10-120 steps per connection (thorough: 40-400) over 1-3 resumed connections on transmit arenas of 36..4095 bytes: publishes of all QoS with payloads from empty to arena-filling and property sets, subscribe/unsubscribe, scripted acks in generated orders incl. failures, cancellations, faults, partial writes; then a drained final connection running a probe sweep (ladder of 13 payload sizes up to the arena size for QoS 1, 0 and 2, then 12 unacknowledged minimal publishes and 12 unacknowledged subscribes to count slots). Oracle: (i) every complete retransmission is byte-identical to the first complete transmission of that (session, id) except bit 3 of byte 0; (ii) the probe sweep's results and the can_publish/quiescent predicates equal those of a brand-new session of the same configuration and build. Non-trivial = the probe comparison ran and the history had a retransmission after an out-of-order ack, or >= 100 operations; distinct = distinct case value.".into(),
            assumptions: vec!["the twin is the same build: local constants (slot counts, header reserve) are never baked into the oracle".into()],
        },
    )
}

pub fn replay(case: &Case) -> Vec<Violation> {
    eval(case).violations
}
