//! C19 — invalid requests are refused locally and leave no trace; every property MQTT 5 allows is
//! accepted; QoS is capped when auto-downgrade is on.
//!
//! Exhaustive enumeration of (packet context × 27 property kinds × boundary values × session
//! state) against a legality table written from the MQTT 5 specification (section 2.2.2.2 and the
//! per-packet sections), with outcomes MUST_ACCEPT / MUST_REJECT / UNSPECIFIED.

use crate::model::{Model, Violation};
use crate::refcodec::{Packet, Prop, SubOpts};
use crate::runner::*;
use crate::scenario::*;
use crate::trace::*;
use crate::view::View;
use crate::world::run_case;
use serde::{Deserialize, Serialize};

#[derive(Clone, Copy, Debug, PartialEq, Eq, Hash, Serialize, Deserialize)]
pub enum PCtx {
    Publish,
    Subscribe,
    Unsubscribe,
    Disconnect,
    Will,
}

#[derive(Clone, Copy, Debug, PartialEq, Eq, Hash, Serialize, Deserialize)]
pub enum SessState {
    Idle,
    InFlight,
    QuotaExhausted,
    SlotsFull,
    /// Receive Maximum 1 and nothing in flight: one unit of send quota, visible in can_publish()
    LastQuotaUnit,
}

#[derive(Clone, Copy, Debug, PartialEq, Eq, Hash, Serialize, Deserialize)]
pub enum Expect {
    Accept,
    Reject,
    Unspecified,
}

#[derive(Clone, Debug, PartialEq, Eq, Hash, Serialize, Deserialize)]
pub enum Cell {
    Prop { ctx: PCtx, prop: Prop, state: SessState, qos: u8, #[serde(default)] correlate: bool },
    EmptyList { subscribe: bool, state: SessState },
    DeadHandle { op: u8, #[serde(default)] idle: bool, #[serde(default)] death: u8 },
    Downgrade { max_qos: Option<u8>, requested: u8, flag: bool },
    /// Maximum QoS of a first and of a second (resumed) connection; the publish happens on the second
    Downgrade2 { first: Option<u8>, second: Option<u8>, requested: u8 },
}

fn long(n: usize) -> String {
    "abcdefghij".chars().cycle().take(n).collect()
}

/// Boundary values for every property kind.
pub fn values(id: u8) -> Vec<Prop> {
    use Prop::*;
    let strs = || vec!["".to_string(), "a".to_string(), "t/é€".to_string(), long(300)];
    let u8s = [0u8, 1, 2, 255];
    let u16s = [0u16, 1, 65535];
    let u32s = [0u32, 1, u32::MAX];
    match id {
        0x01 => u8s.iter().map(|v| PayloadFormat(*v)).collect(),
        0x02 => u32s.iter().map(|v| MessageExpiry(*v)).collect(),
        0x03 => strs().into_iter().map(ContentType).collect(),
        0x08 => vec![ResponseTopic("a".into()), ResponseTopic("r/é€/x".into()), ResponseTopic(long(300)), ResponseTopic("".into()), ResponseTopic("a/#".into())],
        0x09 => vec![CorrelationData(vec![]), CorrelationData(vec![0]), CorrelationData((0..=255).collect())],
        0x0B => [0u32, 1, 127, 128, 16_383, 16_384, 2_097_151, 2_097_152, 20_000_000, 33_554_431, 33_554_432, 268_435_455, 268_435_456, u32::MAX].iter().map(|v| SubscriptionId(*v)).collect(),
        0x11 => u32s.iter().map(|v| SessionExpiry(*v)).collect(),
        0x12 => strs().into_iter().map(AssignedClientId).collect(),
        0x13 => u16s.iter().map(|v| ServerKeepAlive(*v)).collect(),
        0x15 => strs().into_iter().map(AuthMethod).collect(),
        0x16 => vec![AuthData(vec![]), AuthData(vec![1, 2, 3])],
        0x17 => u8s.iter().map(|v| RequestProblemInfo(*v)).collect(),
        0x18 => u32s.iter().map(|v| WillDelay(*v)).collect(),
        0x19 => u8s.iter().map(|v| RequestResponseInfo(*v)).collect(),
        0x1A => strs().into_iter().map(ResponseInfo).collect(),
        0x1C => strs().into_iter().map(ServerReference).collect(),
        0x1F => strs().into_iter().map(ReasonString).collect(),
        0x21 => u16s.iter().map(|v| ReceiveMaximum(*v)).collect(),
        0x22 => u16s.iter().map(|v| TopicAliasMaximum(*v)).collect(),
        0x23 => u16s.iter().map(|v| TopicAlias(*v)).collect(),
        0x24 => [0u8, 1, 2, 3, 255].iter().map(|v| MaximumQoS(*v)).collect(),
        0x25 => u8s.iter().map(|v| RetainAvailable(*v)).collect(),
        0x26 => vec![
            UserProperty("".into(), "".into()),
            UserProperty("k".into(), "v".into()),
            UserProperty("é€".into(), long(300)),
        ],
        0x27 => u32s.iter().map(|v| MaximumPacketSize(*v)).collect(),
        0x28 => u8s.iter().map(|v| WildcardSubAvailable(*v)).collect(),
        0x29 => u8s.iter().map(|v| SubIdAvailable(*v)).collect(),
        0x2A => u8s.iter().map(|v| SharedSubAvailable(*v)).collect(),
        _ => vec![],
    }
}

/// What MQTT 5 says about a client attaching `p` to a packet of context `ctx`.
pub fn expectation(ctx: PCtx, p: &Prop) -> Expect {
    use Expect::*;
    use Prop::*;
    match (ctx, p) {
        (PCtx::Publish | PCtx::Will, PayloadFormat(v)) => {
            if *v <= 1 {
                Accept
            } else {
                Reject
            }
        }
        (PCtx::Publish | PCtx::Will, MessageExpiry(_) | ContentType(_) | CorrelationData(_) | UserProperty(_, _)) => Accept,
        (PCtx::Publish | PCtx::Will, ResponseTopic(t)) => {
            if crate::refcodec::topic_name_ok(t) {
                Accept
            } else {
                Unspecified
            }
        }
        (PCtx::Will, WillDelay(_)) => Accept,
        // the broker never announced a Topic Alias Maximum: any alias is questionable, 0 is illegal
        (PCtx::Publish, TopicAlias(v)) => {
            if *v == 0 {
                Reject
            } else {
                Unspecified
            }
        }
        (PCtx::Subscribe, SubscriptionId(v)) => {
            if (1..=268_435_455).contains(v) {
                Accept
            } else {
                Reject
            }
        }
        (PCtx::Subscribe | PCtx::Unsubscribe | PCtx::Disconnect, UserProperty(_, _)) => Accept,
        (PCtx::Disconnect, SessionExpiry(_) | ReasonString(_)) => Accept,
        (PCtx::Disconnect, ServerReference(_)) => Unspecified,
        _ => Reject,
    }
}

pub fn cells() -> Vec<Cell> {
    let mut out = Vec::new();
    for ctx in [PCtx::Publish, PCtx::Subscribe, PCtx::Unsubscribe, PCtx::Disconnect, PCtx::Will] {
        for id in crate::refcodec::ALL_PROP_IDS {
            for prop in values(id) {
                if ctx == PCtx::Will {
                    out.push(Cell::Prop { ctx, prop, state: SessState::Idle, qos: 0, correlate: false });
                    continue;
                }
                for state in [SessState::Idle, SessState::InFlight, SessState::QuotaExhausted, SessState::SlotsFull, SessState::LastQuotaUnit] {
                    if ctx == PCtx::Publish {
                        for qos in 0..3u8 {
                            out.push(Cell::Prop { ctx, prop: prop.clone(), state, qos, correlate: false });
                            // the same property next to correlate(): a second way to build the list
                            if prop.id() != 0x09 && state == SessState::Idle {
                                out.push(Cell::Prop { ctx, prop: prop.clone(), state, qos, correlate: true });
                            }
                        }
                    } else {
                        out.push(Cell::Prop { ctx, prop: prop.clone(), state, qos: 0, correlate: false });
                    }
                }
            }
        }
    }
    for state in [SessState::Idle, SessState::InFlight, SessState::QuotaExhausted, SessState::SlotsFull, SessState::LastQuotaUnit] {
        out.push(Cell::EmptyList { subscribe: true, state });
        out.push(Cell::EmptyList { subscribe: false, state });
    }
    for op in 0..10u8 {
        for death in 0..8u8 {
            out.push(Cell::DeadHandle { op, idle: false, death });
            out.push(Cell::DeadHandle { op, idle: true, death });
        }
    }
    for max_qos in [None, Some(0u8), Some(1), Some(2)] {
        for requested in 0..3u8 {
            for flag in [false, true] {
                out.push(Cell::Downgrade { max_qos, requested, flag });
            }
        }
    }
    for first in [None, Some(0u8), Some(1), Some(2)] {
        for second in [None, Some(0u8), Some(1), Some(2)] {
            for requested in 0..3u8 {
                out.push(Cell::Downgrade2 { first, second, requested });
            }
        }
    }
    out
}

fn prelude(state: SessState) -> (Option<u16>, Vec<Step>) {
    let so = SubOpts { qos: 1, no_local: false, rap: false, retain_handling: 0 };
    match state {
        SessState::Idle => (None, vec![]),
        SessState::InFlight => (
            None,
            vec![
                Step::Publish(PubSpec::simple(1, 3, 4, 1)),
                Step::Publish(PubSpec::simple(2, 3, 4, 2)),
                Step::Broker(BrokerAct::Ack { which: 40000, reason: 0, form: AckForm::Short }),
                Step::PollIdle { max: 5 },
            ],
        ),
        SessState::QuotaExhausted => (Some(1), vec![Step::Publish(PubSpec::simple(1, 3, 4, 3))]),
        SessState::LastQuotaUnit => (Some(1), vec![]),
        SessState::SlotsFull => (
            None,
            (0..8)
                .map(|i| Step::Subscribe { filters: vec![(TopicSpec::new(3, i), so)], props: vec![], cancel: None })
                .collect(),
        ),
    }
}

/// With all slots taken: afterwards the broker acknowledges the newest request and the application
/// issues one more of the same kind. Nothing a refused request did may show in the handles then (a
/// completed operation stays complete).
fn follow_up(state: SessState, after_disconnect: bool) -> Vec<Step> {
    if state != SessState::SlotsFull || after_disconnect {
        return vec![];
    }
    let so = SubOpts { qos: 1, no_local: false, rap: false, retain_handling: 0 };
    vec![
        Step::Broker(BrokerAct::Ack { which: u16::MAX, reason: 0, form: AckForm::Short }),
        Step::PollIdle { max: 5 },
        Step::Subscribe { filters: vec![(TopicSpec::new(3, 99), so)], props: vec![], cancel: None },
    ]
}

fn op_step(ctx: PCtx, prop: &Prop, qos: u8, correlate: bool) -> Step {
    match ctx {
        PCtx::Publish => Step::Publish(PubSpec { props: vec![prop.clone()], correlate: if correlate { Some(vec![1, 2, 3]) } else { None }, ..PubSpec::simple(qos, 3, 5, 9) }),
        PCtx::Subscribe => Step::Subscribe {
            filters: vec![(TopicSpec::new(4, 1), SubOpts { qos: 2, no_local: true, rap: true, retain_handling: 2 })],
            props: vec![prop.clone()],
            cancel: None,
        },
        PCtx::Unsubscribe => Step::Unsubscribe { filters: vec![TopicSpec::new(4, 1)], props: vec![prop.clone()], cancel: None },
        PCtx::Disconnect => Step::Disconnect { reason: Some(0), props: Some(vec![prop.clone()]), cancel: None },
        PCtx::Will => unreachable!(),
    }
}

pub fn case_of(cell: &Cell) -> Case {
    let base_cfg = Cfg { rx: 256, tx: 4096, ..Cfg::default() };
    let conn = |rm: Option<u16>, max_qos: Option<u8>, steps: Vec<Step>| ConnScript {
        connect: ConnectSpec {
            props: ConnackProps { receive_max: rm, max_qos, ..ConnackProps::default() },
            ..ConnectSpec::default()
        },
        steps,
        end: EndHow::Drop,
    };
    match cell {
        Cell::Prop { ctx: PCtx::Will, prop, .. } => Case {
            cfg: Cfg {
                will: Some(WillCfg { topic: TopicSpec::new(4, 3), payload: PayloadSpec::new(3, 1), qos: 1, retain: true, props: vec![prop.clone()] }),
                ..base_cfg
            },
            broker: BrokerMode::Scripted,
            conns: vec![conn(None, None, vec![Step::Publish(PubSpec::simple(0, 2, 2, 1))])],
        },
        Cell::Prop { ctx, prop, state, qos, correlate } => {
            let (rm, mut steps) = prelude(*state);
            steps.push(op_step(*ctx, prop, *qos, *correlate));
            steps.extend(follow_up(*state, *ctx == PCtx::Disconnect));
            Case { cfg: base_cfg, broker: BrokerMode::Scripted, conns: vec![conn(rm, None, steps)] }
        }
        Cell::EmptyList { subscribe, state } => {
            let (rm, mut steps) = prelude(*state);
            steps.push(if *subscribe {
                Step::Subscribe { filters: vec![], props: vec![], cancel: None }
            } else {
                Step::Unsubscribe { filters: vec![], props: vec![], cancel: None }
            });
            steps.extend(follow_up(*state, false));
            Case { cfg: base_cfg, broker: BrokerMode::Scripted, conns: vec![conn(rm, None, steps)] }
        }
        Cell::DeadHandle { op, idle, death } => {
            let so = SubOpts { qos: 0, no_local: false, rap: false, retain_handling: 0 };
            let mut steps = if *idle { vec![] } else { vec![Step::Publish(PubSpec::simple(1, 3, 4, 1))] };
            // the different ways a handle dies
            match death {
                0 => steps.extend([Step::Eof, Step::Poll { cancel: None }]),
                1 => steps.extend([Step::Broker(BrokerAct::Disconnect { reason: 0x8B }), Step::Poll { cancel: None }]),
                2 => steps.extend([Step::Broker(BrokerAct::Raw(vec![0x41, 0x02, 0x00, 0x01])), Step::Poll { cancel: None }]),
                3 => steps.extend([
                    // keep-alive 2 s: PINGREQ after 1 s, never answered, timeout 5 s later
                    Step::Advance { ms: 1100 },
                    Step::Poll { cancel: None },
                    Step::Advance { ms: 5100 },
                    Step::Poll { cancel: None },
                ]),
                4 => steps.push(Step::Disconnect { reason: None, props: None, cancel: None }),
                5 => steps.extend([Step::FaultAt { delta: 0, eof: false }, Step::Publish(PubSpec::simple(0, 3, 4, 7))]),
                // the write is accepted, the flush fails (QoS 0: direct write path; QoS 1: queued packet)
                6 => steps.extend([Step::FaultAt { delta: 1, eof: false }, Step::Publish(PubSpec::simple(0, 3, 4, 7))]),
                _ => steps.extend([Step::FaultAt { delta: 1, eof: false }, Step::Publish(PubSpec::simple(1, 3, 4, 7))]),
            }
            let base_cfg = if *death == 3 { Cfg { keepalive: 2, ..base_cfg } } else { base_cfg };
            steps.push(match op {
                0 => Step::Publish(PubSpec::simple(0, 3, 4, 2)),
                1 => Step::Publish(PubSpec::simple(1, 3, 4, 2)),
                2 => Step::Publish(PubSpec::simple(2, 3, 4, 2)),
                3 => Step::Subscribe { filters: vec![(TopicSpec::new(3, 1), so)], props: vec![], cancel: None },
                4 => Step::Unsubscribe { filters: vec![TopicSpec::new(3, 1)], props: vec![], cancel: None },
                // ill-formed requests on a dead handle: the handle is dead first of all
                5 => Step::Subscribe { filters: vec![], props: vec![], cancel: None },
                6 => Step::Unsubscribe { filters: vec![], props: vec![], cancel: None },
                7 => Step::Publish(PubSpec { props: vec![Prop::ServerKeepAlive(1)], ..PubSpec::simple(1, 3, 4, 2) }),
                8 => Step::Subscribe { filters: vec![(TopicSpec::new(3, 1), so)], props: vec![Prop::ResponseTopic("r".into())], cancel: None },
                _ => Step::Unsubscribe { filters: vec![TopicSpec::new(3, 1)], props: vec![Prop::SubscriptionId(5)], cancel: None },
            });
            // a resumed connection afterwards must not transmit anything of the refused request
            Case { cfg: base_cfg, broker: BrokerMode::Scripted, conns: vec![conn(None, None, steps), conn(None, None, vec![Step::PollIdle { max: 6 }])] }
        }
        Cell::Downgrade2 { first, second, requested } => Case {
            cfg: Cfg { downgrade: true, ..base_cfg },
            broker: BrokerMode::Scripted,
            conns: vec![
                conn(None, *first, vec![Step::Publish(PubSpec::simple(0, 3, 1, 1))]),
                conn(None, *second, vec![Step::Publish(PubSpec::simple(*requested, 3, 4, 5))]),
            ],
        },
        Cell::Downgrade { max_qos, requested, flag } => Case {
            cfg: Cfg { downgrade: *flag, ..base_cfg },
            broker: BrokerMode::Scripted,
            conns: vec![conn(None, *max_qos, vec![Step::Publish(PubSpec::simple(*requested, 3, 4, 5))])],
        },
    }
}

fn bad(v: &mut Vec<Violation>, sig: String, detail: String) {
    v.push(Violation { prop: "C19", sig, detail });
}

/// Samples directly before the OpStart and after the OpEnd of op `op`.
fn samples_around(trace: &Trace, op: usize) -> (Option<Sample>, Option<Sample>) {
    let mut before = None;
    let mut after = None;
    let mut seen_end = false;
    for e in &trace.events {
        match e {
            Event::Sample(s) => {
                if seen_end {
                    after = Some(s.clone());
                    break;
                }
                before = Some(s.clone());
            }
            Event::OpStart { op: o, .. } if *o == op => {}
            Event::OpEnd { op: o, .. } if *o == op => seen_end = true,
            _ => {}
        }
    }
    // `before` must be the last sample preceding OpStart: recompute precisely
    let mut last = None;
    for e in &trace.events {
        match e {
            Event::Sample(s) => last = Some(s.clone()),
            Event::OpStart { op: o, .. } if *o == op => {
                before = last.clone();
                break;
            }
            _ => {}
        }
    }
    (before, after)
}

pub fn eval_cell(cell: &Cell) -> (Vec<Violation>, Expect) {
    let case = case_of(cell);
    let trace = run_case(&case);
    let view = View::build(&trace);
    let (mut viol, _stats) = Model::run(&case, &view);
    viol.retain(|v| v.prop == "C19" || v.prop == "C09" || v.prop == "PANIC");
    // a wire/request mismatch on an accepted request belongs to this property too
    for v in viol.iter_mut() {
        if v.prop == "C09" {
            v.prop = "C19";
            v.sig = format!("C19/accepted-property-not-on-wire/{}", v.sig);
        }
    }
    // a handle that has reported complete never goes back to pending (no identifier wraps here)
    {
        let mut completed: Vec<bool> = Vec::new();
        for e in &trace.events {
            if let Event::Sample(smp) = e {
                for (h, st) in smp.handles.iter().enumerate() {
                    if completed.len() <= h {
                        completed.resize(h + 1, false);
                    }
                    match st {
                        HStatus::Complete => completed[h] = true,
                        HStatus::Pending if completed[h] => {
                            bad(&mut viol, "C19/refused-request-changed-handle".into(), format!("handle {h} reported complete and later pending again"));
                        }
                        _ => {}
                    }
                }
            }
        }
    }
    let mut expect = Expect::Unspecified;
    match cell {
        Cell::Prop { ctx: PCtx::Will, prop, .. } => {
            expect = expectation(PCtx::Will, prop);
            let id = prop.id();
            match (expect, &trace.config_error) {
                (Expect::Accept, Some(e)) => bad(&mut viol, format!("C19/legal-will-property-refused/id={id:#04x}"), format!("Will::new refused legal will property {prop:?}: {e}")),
                (Expect::Reject, None) => bad(&mut viol, format!("C19/illegal-will-property-accepted/id={id:#04x}"), format!("Will::new accepted {prop:?}, which MQTT 5 does not allow on a will")),
                (Expect::Reject, Some(e)) if !e.contains("InvalidConfig") => bad(&mut viol, "C19/will-error-kind".into(), format!("will property {prop:?} refused with {e}, documented error is InvalidConfig")),
                _ => {}
            }
        }
        Cell::Prop { ctx, prop, state, qos, .. } => {
            expect = expectation(*ctx, prop);
            let cell_step = prelude(*state).1.len();
            let Some(op) = trace.ops.iter().position(|o| o.step == (0, cell_step)) else { return (viol, expect) };
            let rec = &trace.ops[op];
            let id = prop.id();
            let exhausted = matches!(state, SessState::QuotaExhausted | SessState::SlotsFull);
            let ok = rec.res.is_done_ok();
            let is_invalid = rec.res == OpRes::Err(ErrKind::InvalidRequest);
            let (before, after) = samples_around(&trace, op);
            match expect {
                Expect::Reject => {
                    let refused = matches!(rec.res, OpRes::Err(_));
                    if ok {
                        bad(&mut viol, format!("C19/illegal-property-accepted/{ctx:?}/id={id:#04x}"), format!("{ctx:?} with {prop:?} in state {state:?} returned {:?}; MQTT 5 does not allow this property/value there", rec.res));
                    } else if !is_invalid {
                        // (also with the send window closed or every in-flight slot taken: the
                        // property quantifies over "any session state", and a request that can
                        // never succeed must not be answered with a transient resource verdict)
                        bad(&mut viol, format!("C19/refusal-error-kind/{ctx:?}"), format!("{ctx:?} with illegal {prop:?} returned {:?}, documented error is InvalidRequest", rec.res));
                    }
                    if refused {
                        if rec.touches.0 != rec.touches.1 {
                            bad(&mut viol, format!("C19/refused-request-touched-transport/{ctx:?}"), format!("{ctx:?} with illegal {prop:?} was refused but performed transport I/O"));
                        }
                        if before != after {
                            bad(&mut viol, format!("C19/refused-request-changed-state/{ctx:?}"), format!("{ctx:?} with illegal {prop:?} was refused but session state changed: {before:?} -> {after:?}"));
                        }
                    }
                }
                Expect::Accept => {
                    let resource = matches!(
                        rec.res,
                        OpRes::Err(ErrKind::NotReady | ErrKind::InflightExhausted | ErrKind::BufferTooSmall)
                    );
                    let needs_resource = match ctx {
                        PCtx::Publish => *qos > 0,
                        PCtx::Subscribe | PCtx::Unsubscribe => true,
                        _ => false,
                    };
                    if !ok && !(exhausted && needs_resource && resource) {
                        bad(&mut viol, format!("C19/legal-property-refused/{ctx:?}/id={id:#04x}"), format!("{ctx:?} (qos {qos}) with legal {prop:?} in state {state:?} returned {:?}", rec.res));
                    }
                }
                Expect::Unspecified => {}
            }
        }
        Cell::EmptyList { subscribe, state } => {
            expect = Expect::Reject;
            let cell_step = prelude(*state).1.len();
            let op = trace.ops.iter().position(|o| o.step == (0, cell_step)).unwrap_or(trace.ops.len() - 1);
            let rec = &trace.ops[op];
            let (before, after) = samples_around(&trace, op);
            if rec.res != OpRes::Err(ErrKind::InvalidRequest) {
                bad(&mut viol, format!("C19/empty-list/{}", if *subscribe { "subscribe" } else { "unsubscribe" }), format!("empty topic list in state {state:?} returned {:?}, documented error is InvalidRequest", rec.res));
            }
            if rec.touches.0 != rec.touches.1 || before != after {
                bad(&mut viol, "C19/empty-list-left-trace".into(), format!("empty topic list: transport touched or state changed ({before:?} -> {after:?})"));
            }
        }
        Cell::DeadHandle { op: which, .. } => {
            expect = Expect::Reject;
            if trace.events.iter().rev().find_map(|e| if let Event::Sample(s) = e { s.connected } else { None }) != Some(false) && trace.ops.iter().all(|o| !matches!(o.res, OpRes::Err(ErrKind::Disconnected | ErrKind::Transport | ErrKind::InvalidPacket))) {
                // the handle did not die in this cell (nothing to judge)
                return (viol, Expect::Unspecified);
            }
            // the request is the last op of the first connection
            let op = trace.ops.iter().rposition(|o| o.step.0 == 0).unwrap_or(0);
            let rec = &trace.ops[op];
            let (before, after) = samples_around(&trace, op);
            if before != after {
                bad(&mut viol, "C19/dead-handle-request-changed-state".into(), format!("request on a dead handle changed observable session state: {before:?} -> {after:?}"));
            }
            if rec.res != OpRes::Err(ErrKind::Disconnected) {
                bad(&mut viol, format!("C19/dead-handle/op={which}"), format!("request on a dead handle returned {:?}, documented error is Disconnected", rec.res));
            }
            if rec.touches.0 != rec.touches.1 {
                bad(&mut viol, "C19/dead-handle-touched-transport".into(), "request on a dead handle performed transport I/O".into());
            }
        }
        Cell::Downgrade2 { first, second, requested } => {
            expect = Expect::Accept;
            let op = trace.ops.len() - 1;
            let rec = &trace.ops[op];
            let want = (*requested).min(second.unwrap_or(2));
            let wire: Vec<u8> = view.out.iter().filter(|p| p.tr == 1).filter_map(|p| if let Packet::Publish(pb) = &p.packet { Some(pb.qos) } else { None }).collect();
            if wire != vec![want] {
                bad(&mut viol, "C19/downgraded-qos-after-reconnect".into(), format!("auto-downgrade on, Maximum QoS {first:?} on the first and {second:?} on the current connection, requested {requested}: wire QoS {wire:?}, expected [{want}]"));
            }
            let handle = match &rec.res {
                OpRes::Handle(h) => Some(trace.handle_debug.get(*h).cloned().unwrap_or_default()),
                _ => None,
            };
            let ok = match (want, &handle) {
                (0, None) => rec.res == OpRes::Ok,
                (1, Some(d)) => d.contains("AtLeastOnce"),
                (2, Some(d)) => d.contains("ExactlyOnce"),
                _ => false,
            };
            if !ok {
                bad(&mut viol, "C19/handle-kind-mismatch-after-reconnect".into(), format!("QoS to use {want}, publish returned {:?} / handle {handle:?}", rec.res));
            }
        }
        Cell::Downgrade { max_qos, requested, flag } => {
            let op = trace.ops.len() - 1;
            let rec = &trace.ops[op];
            if *flag {
                expect = Expect::Accept;
                let want = (*requested).min(max_qos.unwrap_or(2));
                let wire: Vec<u8> = view
                    .out
                    .iter()
                    .filter_map(|p| if let Packet::Publish(pb) = &p.packet { Some(pb.qos) } else { None })
                    .collect();
                if wire.iter().any(|q| max_qos.is_some_and(|m| *q > m)) {
                    bad(&mut viol, "C19/publish-above-maximum-qos".into(), format!("auto-downgrade on, Maximum QoS {max_qos:?}, requested {requested}: PUBLISH sent with QoS {wire:?}"));
                }
                if wire != vec![want] {
                    bad(&mut viol, "C19/downgraded-qos".into(), format!("auto-downgrade on, Maximum QoS {max_qos:?}, requested {requested}: wire QoS {wire:?}, expected [{want}]"));
                }
                let handle = match &rec.res {
                    OpRes::Handle(h) => Some(trace.handle_debug.get(*h).cloned().unwrap_or_default()),
                    OpRes::Ok => None,
                    other => {
                        bad(&mut viol, "C19/downgrade-publish-failed".into(), format!("publish returned {other:?}"));
                        None
                    }
                };
                let ok = match (want, &handle) {
                    (0, None) => true,
                    (1, Some(d)) => d.contains("AtLeastOnce"),
                    (2, Some(d)) => d.contains("ExactlyOnce"),
                    _ => false,
                };
                if !ok && rec.res.is_done_ok() {
                    bad(&mut viol, "C19/handle-kind-mismatch".into(), format!("QoS actually used {want}, returned handle {handle:?}"));
                }
            }
        }
    }
    (viol, expect)
}

pub fn run(ctx: &Ctx) -> i32 {
    let all = cells();
    let n = all.len();
    // 16 fixed chunks evaluated on a thread pool
    let chunks: Vec<Vec<Cell>> = all.chunks(n.div_ceil(16)).map(|c| c.to_vec()).collect();
    let total = std::sync::Mutex::new(Agg::default());
    std::thread::scope(|sc| {
        for chunk in &chunks {
            let total = &total;
            sc.spawn(move || {
                let mut agg = Agg::default();
                for cell in chunk {
                    let (violations, expect) = eval_cell(cell);
                    let class = match expect {
                        Expect::Accept => "must-accept",
                        Expect::Reject => "must-reject",
                        Expect::Unspecified => "unspecified",
                    };
                    let ev = Eval { violations, nontrivial: expect != Expect::Unspecified, classes: vec![class], watchdog: false };
                    let keep_going = agg.record(ctx, "c19-cell", cell, ev);
                    if !keep_going {
                        // keep enumerating so that known findings are all counted, but remember only
                        // the first unknown failure
                    }
                }
                total.lock().unwrap().merge(agg);
            });
        }
    });
    let mut agg = total.into_inner().unwrap();
    agg.exhaustive = Some(true);
    agg.extra.insert("table_cells".into(), serde_json::json!(n));
    finish(
        ctx,
        agg,
        Report {
            level: "exploration",
            rule: "exhaustive enumeration: {publish(QoS 0,1,2), subscribe, unsubscribe, disconnect} x 27 property kinds x boundary values x session state {idle, in-flight incl. an exchange waiting for PUBCOMP, send quota exhausted, all in-flight slots full, one unit of send quota left}, plus will x 27 kinds x values, empty topic lists in every state, well-formed and ill-formed requests on a dead handle (Disconnected either way), and Maximum QoS {absent,0,1,2} x requested QoS x auto-downgrade flag; oracle = MQTT 5 legality table (MUST_ACCEPT / MUST_REJECT / UNSPECIFIED): rejected => documented error, no transport I/O, all observable session state unchanged; accepted => Ok and the property decodes from the wire. Every cell is a distinct case; non-trivial = cells whose outcome the specification fixes (not UNSPECIFIED).".into(),
            assumptions: vec![
                "legality table written from MQTT 5 sections 2.2.2.2, 3.1.3.2, 3.3.2.3, 3.8.2.1, 3.10.2.1, 3.14.2.2".into(),
                "Topic Alias > 0 (broker announced no Topic Alias Maximum), Server Reference on a client DISCONNECT and an empty / wildcard Response Topic are UNSPECIFIED: executed but not judged".into(),
            ],
        },
    )
}

pub fn replay(cell: &Cell) -> Vec<Violation> {
    eval_cell(cell).0
}
