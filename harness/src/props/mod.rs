pub mod c07;
pub mod c08;
pub mod c09;
pub mod c10;
pub mod c13;
pub mod c14;
pub mod c15;
pub mod c17;
pub mod c19;
pub mod c20;
pub mod scen;
pub mod tail;

use crate::model::Violation;
use crate::runner::Ctx;
use serde_json::Value;

/// Dispatch a check by property id. Returns the process exit code.
pub fn run(ctx: &Ctx) -> i32 {
    if let Some(def) = scen::lookup(ctx.prop) {
        return scen::run(ctx, def);
    }
    match ctx.prop {
        "C07" => return c07::run(ctx),
        "C08" => return c08::run(ctx),
        "C09" => return c09::run(ctx),
        "C10" => return c10::run(ctx),
        "C12" | "C16" => return tail::run(ctx),
        "C13" => return c13::run_check(ctx),
        "C14" => return c14::run(ctx),
        "C15" => return c15::run(ctx),
        "C17" => return c17::run(ctx),
        "C19" => return c19::run(ctx),
        "C20" => return c20::run(ctx),
        _ => {}
    }
    eprintln!("no check registered for {}", ctx.prop);
    2
}

/// Re-run a saved failing input without the generator.
pub fn replay(_ctx: &Ctx, kind: &str, input: &Value) -> Result<Vec<Violation>, String> {
    match kind {
        "case" => {
            let case: crate::scenario::Case = serde_json::from_value(input.clone()).map_err(|e| e.to_string())?;
            Ok(scen::replay(&case))
        }
        "case-c09" => {
            let case: crate::scenario::Case = serde_json::from_value(input.clone()).map_err(|e| e.to_string())?;
            Ok(c09::replay(&case))
        }
        "case-c10" => {
            let case: crate::scenario::Case = serde_json::from_value(input.clone()).map_err(|e| e.to_string())?;
            Ok(c10::replay(&case))
        }
        "case-c14" => {
            let case: crate::scenario::Case = serde_json::from_value(input.clone()).map_err(|e| e.to_string())?;
            Ok(c14::replay(&case))
        }
        "c08-input" => {
            let inp: c08::Input = serde_json::from_value(input.clone()).map_err(|e| e.to_string())?;
            Ok(c08::replay(&inp))
        }
        "case-tail" => {
            let case: crate::scenario::Case = serde_json::from_value(input.clone()).map_err(|e| e.to_string())?;
            Ok(tail::replay(&case))
        }
        "c13-input" => {
            let inp: c13::Input = serde_json::from_value(input.clone()).map_err(|e| e.to_string())?;
            Ok(c13::replay(&inp))
        }
        "c13-edge" => {
            let case: crate::scenario::Case = serde_json::from_value(input.clone()).map_err(|e| e.to_string())?;
            Ok(c13::eval_edge(&case).0)
        }
        "c15-input" => {
            let inp: c15::Input = serde_json::from_value(input.clone()).map_err(|e| e.to_string())?;
            Ok(c15::replay(&inp))
        }
        "case-c17" => {
            let case: crate::scenario::Case = serde_json::from_value(input.clone()).map_err(|e| e.to_string())?;
            Ok(c17::replay(&case))
        }
        "c19-cell" => {
            let cell: c19::Cell = serde_json::from_value(input.clone()).map_err(|e| e.to_string())?;
            Ok(c19::replay(&cell))
        }
        "c20-input" => {
            let inp: c20::Input = serde_json::from_value(input.clone()).map_err(|e| e.to_string())?;
            Ok(c20::replay(&inp))
        }
        other => Err(format!("unknown replay kind {other}")),
    }
}
