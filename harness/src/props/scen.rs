//! Properties decided by the history monitor (`model.rs`) over generated scenarios:
//! C01 C02 C03 C04 C05 C06 C11 C18. Each has its own generator profile and non-trivial rule.

use crate::cgen::{self, Profile};
use crate::model::{Model, Stats, Violation};
use crate::runner::*;
use crate::scenario::*;
use crate::trace::{EndHow, Trace};
use crate::view::View;
use crate::world::run_case;

pub fn eval_case(case: &Case) -> (Vec<Violation>, Stats, Trace) {
    let trace = run_case(case);
    let (viol, stats) = {
        let view = View::build(&trace);
        Model::run(case, &view)
    };
    (viol, stats, trace)
}

pub struct ScenDef {
    pub id: &'static str,
    pub profile: fn(Tier) -> Profile,
    pub nontrivial: fn(&Stats, &Trace) -> bool,
    pub rule: &'static str,
    pub cases: (u64, u64),
    pub level: &'static str,
    /// an additional, purpose-built generator run with a tenth of the cases (same oracle)
    pub extra: Option<fn() -> proptest::strategy::BoxedStrategy<Case>>,
}

fn classes(s: &Stats, t: &Trace) -> Vec<&'static str> {
    let mut c = Vec::new();
    if s.partial_writes > 0 {
        c.push("partial-write");
    }
    if s.cancels > 0 {
        c.push("cancelled-op");
    }
    if s.faults > 0 {
        c.push("transport-fault");
    }
    if s.resumed > 0 {
        c.push("resumed-reconnect");
    }
    if s.resumed_with_inflight > 0 {
        c.push("resumed-with-inflight");
    }
    if s.fresh_with_inflight > 0 {
        c.push("fresh-with-inflight");
    }
    if s.failed_handshakes > 0 {
        c.push("failed-handshake");
    }
    if s.replays > 0 {
        c.push("replayed-request");
    }
    if t.mps_shrinks.0 > 0 {
        c.push("smaller-maximum-packet-size-on-resumed-connection");
        if s.rel_replays > 0 {
            c.push("pubrel-replayed-under-smaller-maximum-packet-size");
        }
    }
    if t.mps_shrinks.1 > 0 {
        c.push("smaller-maximum-packet-size-withheld");
    }
    if s.ambiguous_handles > 0 {
        c.push("handle-of-a-request-with-an-identical-cancelled-twin(status-not-judged)");
    }
    if s.replay_deferred_by_window > 0 {
        c.push("replay-paced-by-smaller-receive-maximum");
    }
    if s.rel_replays > 0 {
        c.push("replayed-pubrel");
    }
    if s.qos2_flights > 0 {
        c.push("qos2-exchange");
    }
    if s.acks_out_of_order > 0 {
        c.push("acks-out-of-order");
    }
    if s.failure_codes > 0 {
        c.push("failure-reason-code");
    }
    if s.failing_payloads > 0 {
        c.push("publish-with-failing-payload-serialiser");
    }
    if s.deliveries > 0 {
        c.push("inbound-delivery");
    }
    if s.inbound_qos2_dups > 0 {
        c.push("inbound-qos2-duplicate");
    }
    if s.dead_tail_ops > 0 {
        c.push("ops-after-death");
    }
    if s.stale_acks > 0 {
        c.push("stale-ack");
    }
    if s.idle_points > 0 {
        c.push("idle-point");
    }
    if t.out.len() >= 3 {
        c.push("three-plus-transports");
    }
    c
}

/// Inbound publishes whose remaining length sits on the 1/2/3/4-byte varint boundaries (needs a
/// receive buffer of more than 2 MiB), delivered under header-splitting read patterns.
fn large_inbound_cases() -> Vec<Case> {
    let mut out = Vec::new();
    for boundary in [128u32, 16_384, 2_097_152] {
        for d in [-2i32, -1, 0, 1] {
            for (qi, cuts) in [(0u8, vec![]), (1, vec![1, 2, 3, 4, 5]), (2, vec![2, 4])] {
                let rl = (boundary as i64 + d as i64) as u32;
                // remaining length = 2 + topic(3) + [2 pid] + 1 (props) + payload
                let overhead = 2 + 3 + if qi > 0 { 2 } else { 0 } + 1;
                let payload = rl - overhead;
                let steps = vec![
                    Step::Broker(BrokerAct::Deliver { qos: qi, retain: qi == 1, topic: TopicSpec::new(3, 1), payload: PayloadSpec::new(payload, 3), props: vec![], redeliver: None }),
                    Step::PollIdle { max: 4 },
                    Step::Broker(BrokerAct::PubRel { which: 0, unknown: None }),
                    Step::PollIdle { max: 4 },
                ];
                out.push(Case {
                    cfg: Cfg { rx: rl as usize + 16, tx: 256, ..Cfg::default() },
                    broker: BrokerMode::Scripted,
                    conns: vec![ConnScript {
                        connect: ConnectSpec { io: IoCfg { read_chunks: vec![], write_chunks: vec![], pend_first: false, read_cuts: cuts.iter().map(|c| 5 + *c).collect() }, ..ConnectSpec::default() },
                        steps,
                        end: crate::trace::EndHow::Drop,
                    }],
                });
            }
        }
    }
    out
}

/// Saved regressions: shrunk inputs of defects found earlier, replayed without the generator.
pub fn replay_saved(ctx: &Ctx, id: &str, nontrivial: &dyn Fn(&Stats, &Trace) -> bool) -> Agg {
    let mut pre = Agg::default();
    let dir = format!("{}/corpus/{}", VERIF_ROOT, id);
    let mut n_corpus = 0u64;
    if let Ok(rd) = std::fs::read_dir(&dir) {
        let mut files: Vec<_> = rd.flatten().map(|e| e.path()).filter(|p| p.extension().is_some_and(|x| x == "json")).collect();
        files.sort();
        for f in files {
            let Ok(text) = std::fs::read_to_string(&f) else { continue };
            let Ok(v) = serde_json::from_str::<serde_json::Value>(&text) else { continue };
            let Ok(case) = serde_json::from_value::<Case>(v["input"].clone()) else { continue };
            let (violations, stats, trace) = eval_case(&case);
            n_corpus += 1;
            pre.record(ctx, "case", &case, Eval { nontrivial: nontrivial(&stats, &trace), classes: vec!["saved-regression-input"], violations, watchdog: trace.watchdog });
        }
    }
    pre.extra.insert("saved_regression_inputs_replayed".into(), serde_json::json!(n_corpus));
    pre
}

pub fn run(ctx: &Ctx, def: &ScenDef) -> i32 {
    let profile = (def.profile)(ctx.tier);
    let cases = ctx.tier.pick(def.cases.0, def.cases.1);
    let mut pre = Agg::default();
    pre.merge(replay_saved(ctx, def.id, &|st, tr| (def.nontrivial)(st, tr)));
    if def.id == "C04" {
        for case in large_inbound_cases() {
            let (violations, stats, trace) = eval_case(&case);
            let delivered = stats.deliveries > 0;
            pre.record(ctx, "case", &case, Eval { nontrivial: delivered, classes: vec!["inbound-at-varint-boundary"], violations, watchdog: trace.watchdog });
        }
    }
    let mut agg = run_prop(
        ctx,
        "case",
        16,
        cases,
        || cgen::case(&profile),
        |case: &Case| {
            let (violations, stats, trace) = eval_case(case);
            Eval { nontrivial: (def.nontrivial)(&stats, &trace), classes: classes(&stats, &trace), violations, watchdog: trace.watchdog }
        },
    );
    if let Some(extra) = def.extra {
        let more = run_prop(ctx, "case", 16, (cases / 10).max(1), extra, |case: &Case| {
            let (violations, stats, trace) = eval_case(case);
            let mut c = classes(&stats, &trace);
            c.push("purpose-built-generator");
            Eval { nontrivial: (def.nontrivial)(&stats, &trace), classes: c, violations, watchdog: trace.watchdog }
        });
        agg.merge(more);
    }
    let pre_failed = pre.failure.clone();
    agg.merge(pre);
    if pre_failed.is_some() {
        agg.failure = pre_failed;
    }
    finish(
        ctx,
        agg,
        Report {
            level: def.level,
            rule: def.rule.to_string(),
            assumptions: vec![
                "transport obeys embedded-io-async: write never returns Ok(0); read/write/flush futures are cancel-safe".into(),
                "broker is MQTT 5 conformant (respects the client's Receive Maximum / Maximum Packet Size, never reuses an in-flight identifier, session-present only when legal)".into(),
                "independent reference codec (harness/src/refcodec.rs) is the trusted oracle for wire contents".into(),
            ],
        },
    )
}

pub fn replay(case: &Case) -> Vec<Violation> {
    eval_case(case).0
}

// ---------------------------------------------------------------------------------------------

pub const C01: ScenDef = ScenDef {
    id: "C01",
    profile: |_t| Profile { keepalive: vec![0, 0, 1, 7, 30, 600], w_advance: 3, w_fill: 1, ..Profile::default() },
    nontrivial: |s, _| (s.partial_writes > 0 || s.cancels > 0 || s.faults > 0) && s.out_packets >= 3,
    rule: "proptest-generated (Config, Vec<ConnScript>) histories: all operations, 1-byte..whole write acceptance, cancellation of cancel-safe ops at generated await points, transport faults, inbound traffic needing acks, resumed/fresh reconnects; every transport's accepted bytes are parsed by the strict reference decoder and each packet must be one the model expects. Non-trivial = at least one partial write, cancellation or fault AND at least two packets after CONNECT; distinct = distinct case value (hash).",
    cases: (240_000, 6_000_000),
    level: "exploration",
    extra: None,
};

pub const C02: ScenDef = ScenDef {
    id: "C02",
    profile: |_t| Profile {
        conns: (2, 6),
        steps: (0, 10),
        w_pub: [1, 12, 2],
        w_sub: 1,
        w_unsub: 1,
        keep_session_pct: 92,
        handshake_failures: 8,
        w_deliver: 1,
        w_redeliver: 0,
        w_pubrel: 0,
        w_fault: 4,
        w_eof: 2,
        rm: vec![None, None, Some(3), Some(8), Some(65535)],
        ..Profile::default()
    },
    nontrivial: |s, _| s.replays > 0 && s.resumed_with_inflight > 0,
    rule: "histories dominated by QoS 1 publishes with connection death at generated write/flush/read indices and by handle drop, 2-6 consecutive connections with generated session-present answers, PUBACKs in any order incl. stale ones; oracle = per-message replay invariant over the wire (exactly once per resumed connection before any new id-bearing packet, same id, DUP, byte-identical, acceptance order, never within a connection, never after PUBACK). Non-trivial = some message is retransmitted on a resumed connection; distinct = distinct case value.",
    cases: (240_000, 6_000_000),
    level: "exploration",
    extra: None,
};

pub const C03: ScenDef = ScenDef {
    id: "C03",
    profile: |_t| Profile {
        conns: (1, 5),
        steps: (2, 16),
        w_pub: [0, 1, 14],
        // SUBSCRIBE / UNSUBSCRIBE share the identifier space and the retained table with the publishes
        w_sub: 2,
        w_unsub: 1,
        w_ack: 14,
        w_ackall: 2,
        keep_session_pct: 92,
        handshake_failures: 5,
        w_deliver: 0,
        w_redeliver: 0,
        w_pubrel: 0,
        w_stale: 2,
        fail_reason_pct: 12,
        rm: vec![None, None, Some(4), Some(8), Some(65535)],
        payload_max: 12,
        shrink_mps_pct: 40,
        ..Profile::default()
    },
    nontrivial: |s, _| (s.qos2_overlap_ooo > 0 && s.acks_out_of_order > 0) || s.rel_replays > 0 || (s.qos2_flights > 0 && s.replays > 0),
    rule: "1-8 concurrent QoS 2 publishes (with some QoS 1 publishes, SUBSCRIBE and UNSUBSCRIBE requests outstanding among them), scripted broker PUBREC/PUBCOMP in generated orders and forms, failing PUBREC codes, crashes between the four steps, resumed reconnects, stale PUBRECs; oracle = per (session epoch, id) four-state machine over wire + consumed acks (PUBREL only after successful PUBREC, no PUBLISH afterwards, PUBREL replay once per resumed connection, failing PUBREC ends the exchange, PUBREL order = PUBREC order). Non-trivial = overlapping exchanges with out-of-order acks, or an exchange crossing a reconnect; distinct = distinct case value.",
    cases: (240_000, 6_000_000),
    level: "exploration",
    extra: None,
};

/// C04 purpose-built: the inbound QoS 2 window is (nearly) filled - 5..8 messages delivered and not
/// released - then the connection is resumed once or twice (with or without the broker having seen
/// the PUBRECs), and retransmissions (DUP PUBLISH resp. PUBREL), releases in any order and new
/// messages (which re-use released identifiers) are mixed.
fn inbound_window() -> proptest::strategy::BoxedStrategy<Case> {
    use proptest::prelude::*;
    let act = || {
        prop_oneof![
            4 => any::<u8>().prop_map(|k| Step::Broker(BrokerAct::Deliver { qos: 2, retain: false, topic: TopicSpec::new(1, 0), payload: PayloadSpec::new(0, 0), props: vec![], redeliver: Some(k) })),
            4 => any::<u16>().prop_map(|w| Step::Broker(BrokerAct::PubRel { which: w, unknown: None })),
            3 => (0u8..3, any::<u8>()).prop_map(|(qos, s)| Step::Broker(BrokerAct::Deliver { qos, retain: s & 1 == 1, topic: TopicSpec::new(2, s), payload: PayloadSpec::new(3, s), props: vec![], redeliver: None })),
            3 => (1u16..6).prop_map(|m| Step::PollIdle { max: m }),
            1 => (1u8..3, any::<u8>()).prop_map(|(q, s)| Step::Publish(PubSpec::simple(q, 2, 2, s))),
        ]
    };
    (5usize..9, prop::collection::vec(act(), 0..8), prop::collection::vec((any::<bool>(), any::<bool>(), prop::collection::vec(act(), 1..10)), 1..3), any::<bool>())
        .prop_map(|(n, tail, later, poll_each)| {
            let mut steps: Vec<Step> = Vec::new();
            for i in 0..n {
                steps.push(Step::Broker(BrokerAct::Deliver { qos: 2, retain: false, topic: TopicSpec::new(2, i as u8), payload: PayloadSpec::new(2, i as u8), props: vec![], redeliver: None }));
                if poll_each {
                    steps.push(Step::PollIdle { max: 3 });
                }
            }
            steps.push(Step::PollIdle { max: 24 });
            steps.extend(tail);
            steps.push(Step::PollIdle { max: 8 });
            let mut conns = vec![ConnScript { connect: ConnectSpec::default(), steps, end: EndHow::Drop }];
            for (lost, keep, mut acts) in later {
                acts.insert(0, Step::PollIdle { max: 4 });
                acts.push(Step::PollIdle { max: 12 });
                conns.push(ConnScript { connect: ConnectSpec { lost_pubrecs: lost, keep_session: keep || lost, ..ConnectSpec::default() }, steps: acts, end: EndHow::Drop });
            }
            Case { cfg: Cfg { rx: 128, tx: 512, ..Cfg::default() }, broker: BrokerMode::Scripted, conns }
        })
        .boxed()
}

pub const C04: ScenDef = ScenDef {
    id: "C04",
    profile: |_t| Profile {
        conns: (1, 4),
        steps: (2, 16),
        tx: (40, 400),
        w_pub: [1, 3, 3],
        w_sub: 1,
        w_unsub: 0,
        w_deliver: 16,
        w_fill: 6,
        w_redeliver: 5,
        w_pubrel: 6,
        w_poll: 10,
        w_idle: 6,
        w_recv: 3,
        w_ack: 3,
        keep_session_pct: 85,
        handshake_failures: 5,
        payload_max: 60,
        ..Profile::default()
    },
    nontrivial: |s, _| s.inbound_qos2_dups > 0 || s.reconnect_between_pub_and_rel > 0 || s.max_inbound_inflight >= 3,
    rule: "broker PUBLISH with all QoS, ids, retain, generated property sets (incl. several subscription ids / user properties), DUP retransmissions of pending QoS 2 ids, PUBREL for pending and unknown ids, at most the advertised Receive Maximum unacknowledged, interleaved with outbound traffic on small transmit arenas, resumed/fresh reconnects between PUBLISH and PUBREL; oracle = reference receiver model (deliveries field-wise equal and exactly once, acks owed in arrival order with the right reason class, pending set cleared by a fresh session). Second generator (a tenth of the cases): 5-8 QoS 2 messages delivered and unreleased (the advertised Receive Maximum is 8), one or two resumed connections on which the broker may not have seen the previous PUBRECs (DUP PUBLISH of identifiers the client holds) mixed with releases in any order and new messages re-using released identifiers. Non-trivial = a QoS 2 duplicate, a reconnect between PUBLISH and PUBREL, or >= 3 inbound ids in flight; distinct = distinct case value.",
    cases: (240_000, 6_000_000),
    level: "exploration",
    extra: Some(inbound_window),
};

pub const C05: ScenDef = ScenDef {
    id: "C05",
    profile: |_t| Profile {
        conns: (2, 8),
        steps: (0, 7),
        keep_session_pct: 55,
        handshake_failures: 30,
        w_fault: 3,
        w_deliver: 3,
        ..Profile::default()
    },
    nontrivial: |s, _| (s.fresh_with_inflight > 0 && s.resumed_with_inflight > 0) || (s.failed_handshakes > 0 && s.fresh_with_inflight + s.resumed_with_inflight > 0),
    rule: "sequences of 2-8 connections with arbitrary legal session-present answers, interleaved rejected / garbled / EOF / I/O-failed / cancelled handshakes and an arbitrary in-flight mix at each loss; oracle = decoded CONNECT of each transport (clean start only until the first successful CONNACK, client id) plus the replay / discard rules over the wire and handle invalidation. Non-trivial = a fresh and a resumed answer both with something in flight, or a failed handshake with something in flight; distinct = distinct case value.",
    cases: (240_000, 6_000_000),
    level: "exploration",
    extra: None,
};

/// C06, second generator: many QoS 2 exchanges between PUBREC and PUBCOMP at once. n publishes, all
/// PUBRECs, the PUBRELs go out, m more publishes, their PUBRECs before or after the PUBCOMPs of the
/// first batch - "no QoS 2 exchange is ever dropped because too many of them are waiting for
/// PUBCOMP", whatever the local limits are.
fn q2_pressure() -> proptest::strategy::BoxedStrategy<Case> {
    use proptest::prelude::*;
    (4usize..14, 1usize..6, any::<bool>(), prop::sample::select(vec![None, None, Some(16u16), Some(9), Some(300)]), any::<bool>(), 0u8..3)
        .prop_map(|(n, m, reverse, rm, resume, qos1)| {
            let mut steps: Vec<Step> = Vec::new();
            for i in 0..n {
                let q = if (i as u8) < qos1 { 1 } else { 2 };
                steps.push(Step::Publish(PubSpec::simple(q, 2, 1, i as u8)));
            }
            steps.push(Step::Broker(BrokerAct::AckAll { reverse: false }));
            steps.push(Step::PollIdle { max: 40 });
            for i in 0..m {
                steps.push(Step::Publish(PubSpec::simple(2, 2, 1, 100 + i as u8)));
            }
            steps.push(Step::Broker(BrokerAct::AckAll { reverse }));
            steps.push(Step::PollIdle { max: 40 });
            let props = ConnackProps { receive_max: rm, ..ConnackProps::default() };
            let mut conns = vec![ConnScript { connect: ConnectSpec { props: props.clone(), ..ConnectSpec::default() }, steps, end: EndHow::Drop }];
            let drain = vec![Step::Broker(BrokerAct::AckAll { reverse: false }), Step::PollIdle { max: 40 }, Step::Broker(BrokerAct::AckAll { reverse: false }), Step::PollIdle { max: 40 }];
            if resume {
                conns.push(ConnScript { connect: ConnectSpec { props, ..ConnectSpec::default() }, steps: drain, end: EndHow::Drop });
            } else {
                conns[0].steps.extend(drain);
            }
            Case { cfg: Cfg { tx: 2048, ..Cfg::default() }, broker: BrokerMode::Scripted, conns }
        })
        .boxed()
}

pub const C06: ScenDef = ScenDef {
    id: "C06",
    profile: |_t| Profile {
        conns: (1, 4),
        steps: (2, 18),
        tx: (400, 2000),
        w_pub: [1, 8, 10],
        w_sub: 2,
        w_unsub: 2,
        w_ack: 10,
        w_deliver: 0,
        w_redeliver: 0,
        w_pubrel: 0,
        keep_session_pct: 92,
        handshake_failures: 4,
        payload_max: 8,
        pub_props: false,
        rm: vec![Some(1), Some(1), Some(2), Some(2), Some(3), Some(4), Some(7), Some(8), Some(9), Some(300), Some(65535), None],
        vary_rm_pct: 40,
        ..Profile::default()
    },
    nontrivial: |s, _| s.small_rm_qos2 || s.resumed_with_inflight > 0,
    rule: "Receive Maximum drawn from {1,2,3,4,7,8,9,300,65535,absent} (weighted to small), QoS 1/2 mixes, generated ack timing/orders (PUBREC long before PUBCOMP), cancellations, resumed reconnects with messages in flight; oracle = counting invariant on the wire at every completed QoS>0 PUBLISH, refused publishes leave nothing on the wire, no accepted exchange vanishes (handles). Non-trivial = Receive Maximum <= 4 with QoS 2 traffic, or a resumed reconnect with in-flight messages; distinct = distinct case value.",
    cases: (240_000, 6_000_000),
    level: "exploration",
    extra: Some(q2_pressure),
};

pub const C11: ScenDef = ScenDef {
    id: "C11",
    profile: |_t| Profile {
        conns: (1, 3),
        steps: (3, 14),
        w_fault: 6,
        w_eof: 3,
        w_server_disconnect: 3,
        w_disconnect: 3,
        // keep-alive timeouts are one of the listed ways to die: unanswered PINGREQ + 5 s
        keepalive: vec![0, 1, 3, 20],
        w_advance: 5,
        // invalid inbound packets are another listed way to die
        w_raw: 4,
        ..Profile::default()
    },
    nontrivial: |s, _| s.dead_tail_ops > 0,
    rule: "random histories with read error / EOF / write error / flush error at generated I/O-call indices, broker DISCONNECT, local disconnect(), followed by a generated tail of further API calls on the same handle; oracle = after the first death result is_connected()/can_publish() stay false, every network op returns the disconnected error (disconnect -> Ok) and the transport's I/O poll counter does not move. Non-trivial = at least one API call was made on a dead handle; distinct = distinct case value.",
    cases: (240_000, 6_000_000),
    level: "fault_enumeration",
    extra: None,
};

pub const C18: ScenDef = ScenDef {
    id: "C18",
    profile: |_t| Profile {
        conns: (1, 5),
        steps: (2, 14),
        w_pub: [1, 6, 6],
        w_sub: 4,
        w_unsub: 4,
        w_ack: 12,
        fail_reason_pct: 30,
        keep_session_pct: 65,
        cancels: false,
        // a retained request that no longer fits a smaller Maximum Packet Size blocks the
        // connection, but its handle must go on telling the truth (pending)
        shrink_mps_pct: 30,
        unconditional_limits_pct: 25,
        ..Profile::default()
    },
    nontrivial: |s, _| s.max_distinct_status >= 2 || s.failure_codes > 0,
    rule: "all operation kinds, all ack orders and reason codes (success/failure, all three encodings), reconnect patterns; handle predicates sampled after every step and compared with the model (invalidated iff a fresh session replaced the issuing one, complete iff the final ack was consumed, else pending; exactly one predicate true; failing acks surface as Rejected(code) from the consuming op). Non-trivial = handles with at least two different expected statuses at one sample, or a failure reason code; distinct = distinct case value.",
    cases: (240_000, 6_000_000),
    level: "exploration",
    extra: None,
};

pub fn lookup(id: &str) -> Option<&'static ScenDef> {
    match id {
        "C01" => Some(&C01),
        "C02" => Some(&C02),
        "C03" => Some(&C03),
        "C04" => Some(&C04),
        "C05" => Some(&C05),
        "C06" => Some(&C06),
        "C11" => Some(&C11),
        "C18" => Some(&C18),
        _ => None,
    }
}
