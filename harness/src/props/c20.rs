//! C20 — reply helpers address exactly the requester.
//!
//! Two sessions: A receives a generated broker PUBLISH, B publishes whatever the reply helpers of
//! A's message produce, so the result can be decoded from B's wire by the reference codec.

use crate::model::Violation;
use crate::refcodec::{self as rc, Packet, Prop};
use crate::runner::*;
use crate::sim::clock;
use crate::sim::exec::{self, Outcome, RunCtl};
use crate::sim::io::{SimIo, Transport};
use crate::trace::Log;
use crate::world::to_property;
use minimq::{Buffers, ConfigBuilder, InboundPublish, OwnedResponseTarget, Property, Publication, ResourceError, Session};
use proptest::prelude::*;
use serde::{Deserialize, Serialize};
use std::cell::RefCell;
use std::rc::Rc;

#[derive(Clone, Debug, PartialEq, Eq, Hash, Serialize, Deserialize)]
pub struct Input {
    /// response topic length (None = absent) and text variant
    pub response_topic: Option<(u32, u8)>,
    /// correlation data (None = absent): length and byte seed
    pub correlation: Option<(u32, u8)>,
    /// other inbound properties and the positions at which the two above are inserted
    pub others: Vec<Prop>,
    pub pos_rt: u8,
    pub pos_cd: u8,
    /// user properties added to the reply afterwards
    pub added: Vec<(String, String)>,
    pub qos: u8,
    /// QoS requested for the replies and the Maximum QoS of the replying session's broker (that
    /// session uses auto-downgrade, so a reply above the limit goes out at the limit)
    #[serde(default)]
    pub reply_qos: u8,
    #[serde(default)]
    pub reply_max_qos: Option<u8>,
    /// further legal publish properties attached to a third reply (bit 0 Response Topic for a
    /// follow-up, bit 1 Content Type, bit 2 Payload Format Indicator, bit 3 Message Expiry)
    #[serde(default)]
    pub follow: u8,
}

pub fn response_topic(len: u32, variant: u8) -> String {
    crate::scenario::TopicSpec::new(len, variant).name()
}

pub fn correlation(len: u32, seed: u8) -> Vec<u8> {
    (0..len as usize).map(|i| (seed as usize).wrapping_mul(31).wrapping_add(i.wrapping_mul(131)) as u8).collect()
}

const CAPS_T: [usize; 4] = [1, 8, 64, 300];
const CAPS_C: [usize; 4] = [0, 1, 8, 64];

fn len_near_caps(caps: &'static [usize]) -> BoxedStrategy<u32> {
    let mut v: Vec<u32> = Vec::new();
    for c in caps {
        for d in [-1i64, 0, 1] {
            let x = *c as i64 + d;
            if x >= 0 {
                v.push(x as u32);
            }
        }
    }
    prop::sample::select(v).boxed()
}

pub fn strategy(big: bool) -> BoxedStrategy<Input> {
    let rt_len = if big {
        prop_oneof![
            6 => len_near_caps(&CAPS_T),
            3 => 1u32..40,
            1 => prop::sample::select(vec![127u32, 128, 129, 16383, 16384, 65534, 65535]),
        ]
        .boxed()
    } else {
        prop_oneof![6 => len_near_caps(&CAPS_T), 3 => 1u32..40, 1 => prop::sample::select(vec![127u32, 128, 129, 1000])].boxed()
    };
    let cd_len = if big {
        prop_oneof![
            6 => len_near_caps(&CAPS_C),
            3 => 0u32..40,
            1 => prop::sample::select(vec![127u32, 128, 16384, 65534, 65535]),
        ]
        .boxed()
    } else {
        prop_oneof![6 => len_near_caps(&CAPS_C), 3 => 0u32..40, 1 => prop::sample::select(vec![127u32, 128, 1000])].boxed()
    };
    let others = prop::collection::vec(
        prop_oneof![
            (0u8..2).prop_map(Prop::PayloadFormat),
            any::<u32>().prop_map(Prop::MessageExpiry),
            "[a-z/]{0,8}".prop_map(Prop::ContentType),
            ("[a-z]{0,5}", "[a-z]{0,5}").prop_map(|(k, v)| Prop::UserProperty(k, v)),
            prop_oneof![3 => 1u32..100000, 1 => prop::sample::select(vec![127u32, 128, 16_383, 16_384, 2_097_151, 2_097_152, 268_435_455])].prop_map(Prop::SubscriptionId),
        ],
        0..5,
    )
    .prop_map(|v| {
        let mut out: Vec<Prop> = Vec::new();
        for p in v {
            if matches!(p.id(), 0x26 | 0x0B) || !out.iter().any(|q| q.id() == p.id()) {
                out.push(p);
            }
        }
        out
    });
    (
        prop_oneof![1 => Just(None), 6 => (rt_len, any::<u8>()).prop_map(Some)],
        prop_oneof![1 => Just(None), 4 => (cd_len, any::<u8>()).prop_map(Some)],
        others,
        any::<u8>(),
        any::<u8>(),
        prop::collection::vec(("[a-z]{0,4}", "[a-z]{0,4}"), 0..3),
        0u8..3,
        prop_oneof![3 => Just(0u8), 1 => Just(1u8), 1 => Just(2u8)],
        prop_oneof![3 => Just(None), 1 => Just(Some(0u8)), 1 => Just(Some(1u8))],
        prop_oneof![1 => Just(0u8), 3 => 1u8..16],
    )
        .prop_map(|(response_topic, correlation, others, pos_rt, pos_cd, added, qos, reply_qos, reply_max_qos, follow)| Input {
            follow,
            reply_qos,
            reply_max_qos,
            response_topic: response_topic.map(|(l, v)| (l.max(1), v)),
            correlation,
            others,
            pos_rt,
            pos_cd,
            added,
            qos,
        })
        .boxed()
}

struct Side<'a> {
    tr: Rc<RefCell<Transport>>,
    _log: Log,
    session: Session<'a>,
}

fn connack() -> Vec<u8> {
    rc::encode(&Packet::ConnAck { session_present: false, reason: 0, props: vec![] })
}

fn run_fut<F: std::future::Future>(tr: &Rc<RefCell<Transport>>, fut: F) -> Option<F::Output> {
    let mut ctl = RunCtl::new(tr);
    match exec::run(fut, &mut ctl) {
        Outcome::Done(v) => Some(v),
        _ => None,
    }
}

fn bad(v: &mut Vec<Violation>, sig: &str, detail: String) {
    if !v.iter().any(|x| x.sig == sig) {
        v.push(Violation { prop: "C20", sig: sig.to_string(), detail });
    }
}

/// Publish `p` through session B and return the decoded PUBLISH it put on the wire.
fn publish_via_b(
    b: &mut minimq::Connection<'_, '_, SimIo>,
    tr: &Rc<RefCell<Transport>>,
    p: Publication<'_, &[u8]>,
    v: &mut Vec<Violation>,
    what: &str,
) -> Option<rc::Publish> {
    let start = tr.borrow().out.len();
    match run_fut(tr, b.publish(p)) {
        Some(Ok(_)) => {}
        other => {
            bad(v, &format!("C20/{what}-publish-failed"), format!("publishing the {what} failed: {:?}", other.map(|r| r.map(|_| ()).map_err(|e| format!("{e:?}")))));
            return None;
        }
    }
    let bytes = tr.borrow().out[start..].to_vec();
    match rc::decode(&bytes) {
        Ok(d) if d.len == bytes.len() => match d.packet {
            Packet::Publish(pb) => Some(pb),
            other => {
                bad(v, &format!("C20/{what}-not-a-publish"), format!("{other:?}"));
                None
            }
        },
        other => {
            bad(v, &format!("C20/{what}-undecodable"), format!("{:?}", other.map(|d| d.len)));
            None
        }
    }
}

fn check_reply(pb: &rc::Publish, rt: &str, cd: &Option<Vec<u8>>, added: &[(String, String)], v: &mut Vec<Violation>, what: &str) {
    check_reply_ext(pb, rt, cd, added, &[], v, what)
}

fn follow_props(follow: u8) -> Vec<Prop> {
    let mut out = Vec::new();
    if follow & 1 != 0 {
        out.push(Prop::ResponseTopic("follow/up".into()));
    }
    if follow & 2 != 0 {
        out.push(Prop::ContentType("text/x".into()));
    }
    if follow & 4 != 0 {
        out.push(Prop::PayloadFormat(1));
    }
    if follow & 8 != 0 {
        out.push(Prop::MessageExpiry(9));
    }
    out
}

fn check_reply_ext(pb: &rc::Publish, rt: &str, cd: &Option<Vec<u8>>, added: &[(String, String)], more: &[Prop], v: &mut Vec<Violation>, what: &str) {
    if pb.topic != rt {
        bad(v, &format!("C20/{what}-topic"), format!("reply topic {:?} ({} bytes), response topic was {} bytes", &pb.topic[..pb.topic.len().min(30)], pb.topic.len(), rt.len()));
    }
    let cds: Vec<&Vec<u8>> = pb.props.iter().filter_map(|p| if let Prop::CorrelationData(d) = p { Some(d) } else { None }).collect();
    match cd {
        Some(want) => {
            if cds.len() != 1 || cds[0] != want {
                bad(v, &format!("C20/{what}-correlation"), format!("reply carries correlation data {:?} (lens), expected exactly one of {} bytes", cds.iter().map(|d| d.len()).collect::<Vec<_>>(), want.len()));
            }
        }
        None => {
            if !cds.is_empty() {
                bad(v, &format!("C20/{what}-correlation-invented"), "reply carries correlation data although the request had none".to_string());
            }
        }
    }
    let ups: Vec<(String, String)> = pb.props.iter().filter_map(|p| if let Prop::UserProperty(k, val) = p { Some((k.clone(), val.clone())) } else { None }).collect();
    if ups != added {
        bad(v, &format!("C20/{what}-user-properties"), format!("reply user properties {ups:?}, added {added:?}"));
    }
    let mut extra: Vec<Prop> = pb.props.iter().filter(|p| !matches!(p, Prop::CorrelationData(_) | Prop::UserProperty(_, _))).cloned().collect();
    let mut want: Vec<Prop> = more.to_vec();
    extra.sort_by_key(|p| format!("{p:?}"));
    want.sort_by_key(|p| format!("{p:?}"));
    if extra != want {
        bad(v, &format!("C20/{what}-extra-properties"), format!("reply carries the other properties {extra:?}, attached were {want:?}"));
    }
}

macro_rules! owned_case {
    ($msg:expr, $t:literal, $c:literal, $rt:expr, $cd:expr, $b:expr, $btr:expr, $added:expr, $v:expr) => {{
        let r: Result<Option<OwnedResponseTarget<$t, $c>>, ResourceError> = $msg.reply_owned::<$t, $c>();
        let fits = $rt.as_ref().is_some_and(|t: &String| t.len() <= $t) && $cd.as_ref().is_none_or(|c: &Vec<u8>| c.len() <= $c);
        match (&r, $rt.as_ref()) {
            (Ok(None), None) => {}
            (Ok(None), Some(_)) => bad($v, "C20/owned-none-despite-response-topic", format!("reply_owned::<{},{}> returned None", $t, $c)),
            (_, None) => bad($v, "C20/owned-offered-without-response-topic", format!("reply_owned::<{},{}> returned {:?} without a response topic", $t, $c, r.as_ref().map(|o| o.is_some()))),
            (Ok(Some(target)), Some(rt)) => {
                if !fits {
                    bad($v, "C20/owned-truncated", format!("reply_owned::<{},{}> succeeded for topic {} B / correlation {:?} B: topic()={} B", $t, $c, rt.len(), $cd.as_ref().map(|c: &Vec<u8>| c.len()), target.topic().len()));
                }
                if target.topic() != rt.as_str() || target.correlation_data().map(|d| d.to_vec()) != *$cd {
                    bad($v, "C20/owned-content", format!("reply_owned::<{},{}> holds topic {} B / correlation {:?} B, expected {} B / {:?} B", $t, $c, target.topic().len(), target.correlation_data().map(|d| d.len()), rt.len(), $cd.as_ref().map(|c: &Vec<u8>| c.len())));
                }
                let props: Vec<Property<'_>> = $added.iter().map(|(k, val): &(String, String)| Property::UserProperty(k, val)).collect();
                let mut p = target.publication(&b"o"[..]);
                if !props.is_empty() {
                    p = p.properties(&props);
                }
                if let Some(pb) = publish_via_b($b, $btr, p, $v, "owned-reply") {
                    check_reply(&pb, rt, $cd, $added, $v, "owned-reply");
                }
            }
            (Err(e), Some(rt)) => {
                if fits {
                    bad($v, "C20/owned-refused-although-it-fits", format!("reply_owned::<{},{}> returned {e:?} for topic {} B / correlation {:?} B", $t, $c, rt.len(), $cd.as_ref().map(|c: &Vec<u8>| c.len())));
                } else if *e != ResourceError::BufferTooSmall {
                    bad($v, "C20/owned-error-kind", format!("{e:?}"));
                }
            }
        }
    }};
}

pub struct Out {
    pub violations: Vec<Violation>,
    pub capacity_boundary: bool,
}

pub fn eval(inp: &Input) -> Out {
    clock::reset();
    let mut v: Vec<Violation> = Vec::new();
    let rt = inp.response_topic.map(|(l, var)| response_topic(l, var));
    let cd = inp.correlation.map(|(l, s)| correlation(l, s));
    // inbound property list with the two interesting ones at generated positions
    let mut props = inp.others.clone();
    if let Some(t) = &rt {
        let at = crate::world::map_index((inp.pos_rt as u16) << 8, props.len() + 1);
        props.insert(at, Prop::ResponseTopic(t.clone()));
    }
    if let Some(c) = &cd {
        let at = crate::world::map_index((inp.pos_cd as u16) << 8, props.len() + 1);
        props.insert(at, Prop::CorrelationData(c.clone()));
    }
    let publish = rc::Publish {
        dup: false,
        qos: inp.qos,
        retain: false,
        topic: "req/t".into(),
        pid: if inp.qos > 0 { Some(7) } else { None },
        props,
        payload: b"ping".to_vec(),
    };
    let inbound = rc::encode(&Packet::Publish(publish.clone()));
    let size = inbound.len() + 64;
    let mut rx_a = vec![0u8; size.max(128)];
    let mut tx_a = vec![0u8; 128];
    let mut rx_b = vec![0u8; 64];
    let mut tx_b = vec![0u8; 2 * size + 256];
    let log: Log = Rc::new(RefCell::new(Vec::new()));
    let mk = |id: usize| Transport::new(id, log.clone());
    let (io_a, tr_a) = SimIo::new(mk(0));
    let (io_b, tr_b) = SimIo::new(mk(1));
    let mut sa = Session::new(ConfigBuilder::new(Buffers::new(&mut rx_a, &mut tx_a)).client_id("a").unwrap().keepalive_interval(0));
    let mut sb = Session::new(ConfigBuilder::new(Buffers::new(&mut rx_b, &mut tx_b)).client_id("b").unwrap().keepalive_interval(0).autodowngrade_qos());
    tr_a.borrow_mut().push_inbound(&connack());
    let connack_b = rc::encode(&Packet::ConnAck { session_present: false, reason: 0, props: inp.reply_max_qos.map(|q| vec![Prop::MaximumQoS(q)]).unwrap_or_default() });
    tr_b.borrow_mut().push_inbound(&connack_b);
    let reply_qos = match inp.reply_qos {
        0 => minimq::QoS::AtMostOnce,
        1 => minimq::QoS::AtLeastOnce,
        _ => minimq::QoS::ExactlyOnce,
    };
    let effective_qos = inp.reply_qos.min(inp.reply_max_qos.unwrap_or(2));
    let r = std::panic::catch_unwind(std::panic::AssertUnwindSafe(|| {
        let Some(Ok(mut ca)) = run_fut(&tr_a, sa.connect(io_a)) else {
            bad(&mut v, "C20/setup", "session A did not connect".into());
            return;
        };
        let Some(Ok(mut cb)) = run_fut(&tr_b, sb.connect(io_b)) else {
            bad(&mut v, "C20/setup", "session B did not connect".into());
            return;
        };
        tr_a.borrow_mut().push_inbound(&inbound);
        let msg: InboundPublish<'_> = match run_fut(&tr_a, ca.poll()) {
            Some(Ok(Some(m))) => m,
            other => {
                bad(&mut v, "C20/request-not-delivered", format!("{:?}", other.map(|r| r.map(|m| m.is_some()).map_err(|e| format!("{e:?}")))));
                return;
            }
        };
        // accessors
        if msg.response_topic().map(|s| s.to_string()) != rt || msg.correlation_data().map(|d| d.to_vec()) != cd {
            bad(&mut v, "C20/accessor-mismatch", format!("response_topic()/correlation_data() lens {:?}/{:?}, sent {:?}/{:?}", msg.response_topic().map(|s| s.len()), msg.correlation_data().map(|d| d.len()), rt.as_ref().map(|s| s.len()), cd.as_ref().map(|d| d.len())));
        }
        // reply()
        let added_props: Vec<Property<'_>> = inp.added.iter().map(|(k, val)| Property::UserProperty(k, val)).collect();
        match (msg.reply(&b"pong"[..]), &rt) {
            (None, None) => {}
            (Some(_), None) => bad(&mut v, "C20/reply-offered-without-response-topic", "reply() returned a publication although the request had no response topic".into()),
            (None, Some(_)) => bad(&mut v, "C20/reply-none-despite-response-topic", "reply() returned None".into()),
            (Some(p), Some(t)) => {
                // first without, then with added user properties
                // the first reply at the generated QoS (downgraded to the broker's Maximum QoS)
                if let Some(pb) = publish_via_b(&mut cb, &tr_b, p.qos(reply_qos), &mut v, "reply") {
                    check_reply(&pb, t, &cd, &[], &mut v, "reply");
                    if pb.qos != effective_qos || pb.pid.is_some() != (effective_qos > 0) {
                        bad(&mut v, "C20/reply-qos", format!("reply requested at QoS {} under Maximum QoS {:?}: sent with QoS {} and packet id {:?}", inp.reply_qos, inp.reply_max_qos, pb.qos, pb.pid));
                    }
                    // complete the exchange so that the in-flight slot is free again
                    if let Some(pid) = pb.pid {
                        if pb.qos == 1 {
                            tr_b.borrow_mut().push_inbound(&rc::encode(&Packet::PubAck(rc::Ack::short(pid))));
                            let _ = run_fut(&tr_b, cb.poll());
                        } else {
                            tr_b.borrow_mut().push_inbound(&rc::encode(&Packet::PubRec(rc::Ack::short(pid))));
                            let _ = run_fut(&tr_b, cb.poll());
                            tr_b.borrow_mut().push_inbound(&rc::encode(&Packet::PubComp(rc::Ack::short(pid))));
                            let _ = run_fut(&tr_b, cb.poll());
                        }
                    }
                }
                let p2 = msg.reply(&b"pong"[..]).unwrap().properties(&added_props);
                if let Some(pb) = publish_via_b(&mut cb, &tr_b, p2, &mut v, "reply-with-properties") {
                    check_reply(&pb, t, &cd, &inp.added, &mut v, "reply-with-properties");
                }
                // a reply that carries further publish properties of its own (e.g. a Response Topic
                // for the follow-up) is still addressed to the requester and keeps the correlation
                if inp.follow != 0 {
                    let more = follow_props(inp.follow);
                    let mut all: Vec<Property<'_>> = more.iter().map(to_property).collect();
                    all.extend(inp.added.iter().map(|(k, val)| Property::UserProperty(k, val)));
                    let p3 = msg.reply(&b"pong"[..]).unwrap().properties(&all);
                    if let Some(pb) = publish_via_b(&mut cb, &tr_b, p3, &mut v, "reply-with-follow-up") {
                        check_reply_ext(&pb, t, &cd, &inp.added, &more, &mut v, "reply-with-follow-up");
                    }
                }
            }
        }
        // reply_owned() over the capacity lattice
        owned_case!(msg, 1, 0, rt, &cd, &mut cb, &tr_b, &inp.added, &mut v);
        owned_case!(msg, 1, 1, rt, &cd, &mut cb, &tr_b, &inp.added, &mut v);
        owned_case!(msg, 8, 0, rt, &cd, &mut cb, &tr_b, &inp.added, &mut v);
        owned_case!(msg, 8, 1, rt, &cd, &mut cb, &tr_b, &inp.added, &mut v);
        owned_case!(msg, 8, 8, rt, &cd, &mut cb, &tr_b, &inp.added, &mut v);
        owned_case!(msg, 64, 8, rt, &cd, &mut cb, &tr_b, &inp.added, &mut v);
        owned_case!(msg, 64, 64, rt, &cd, &mut cb, &tr_b, &inp.added, &mut v);
        owned_case!(msg, 300, 1, rt, &cd, &mut cb, &tr_b, &inp.added, &mut v);
        owned_case!(msg, 300, 64, rt, &cd, &mut cb, &tr_b, &inp.added, &mut v);
        owned_case!(msg, 65535, 65535, rt, &cd, &mut cb, &tr_b, &inp.added, &mut v);
        let _ = to_property;
    }));
    if r.is_err() {
        let loc = crate::LAST_PANIC_LOC.with(|l| l.borrow().clone());
        v.push(Violation { prop: "PANIC", sig: format!("panic/{loc}"), detail: "panic while exercising the reply helpers".into() });
    }
    let near = |len: Option<usize>, caps: &[usize]| len.is_some_and(|l| caps.iter().any(|c| (l as i64 - *c as i64).abs() <= 1));
    let capacity_boundary = near(rt.as_ref().map(|t| t.len()), &CAPS_T) || near(cd.as_ref().map(|c| c.len()), &CAPS_C);
    Out { violations: v, capacity_boundary }
}

pub fn run(ctx: &Ctx) -> i32 {
    let cases = ctx.tier.pick(200_000, 6_000_000);
    let big = ctx.tier == Tier::Thorough;
    let agg = run_prop(ctx, "c20-input", 16, cases, move || strategy(big), |inp: &Input| {
        let out = eval(inp);
        let mut classes = Vec::new();
        if inp.response_topic.is_none() {
            classes.push("no-response-topic");
        }
        if inp.correlation.is_some() && !inp.added.is_empty() {
            classes.push("correlation-plus-added-user-properties");
        }
        if out.capacity_boundary {
            classes.push("capacity-boundary");
        }
        if inp.response_topic.is_some_and(|t| t.0 > 16000) || inp.correlation.is_some_and(|c| c.0 > 16000) {
            classes.push("field-over-16KiB");
        }
        let nontrivial = inp.response_topic.is_some() && ((inp.correlation.is_some() && !inp.added.is_empty()) || out.capacity_boundary);
        Eval { violations: out.violations, nontrivial, classes, watchdog: false }
    });
    finish(
        ctx,
        agg,
        Report {
            level: "exploration",
            rule: "generated inbound PUBLISH (QoS 0-2) carrying a response topic (1..65535 bytes, lengths concentrated at capacity-1/capacity/capacity+1 of the owned capacities {1,8,64,300}; the thorough tier also 16383/16384/65534/65535) and/or correlation data (0..65535 bytes, concentrated around {0,1,8,64}) inserted at generated positions among other properties, or absent; reply(), reply()+user properties and reply_owned::<T,C> for 10 capacity pairs are each *published through a second session* and decoded from its wire by the reference codec: topic == response topic, exactly one correlation data == inbound bytes (none if absent), user properties preserved, and a third reply with further publish properties of its own (Response Topic for a follow-up, Content Type, Payload Format Indicator, Message Expiry in all 15 combinations) keeps topic, correlation and exactly those properties; no response topic => None; capacity too small => BufferTooSmall, never truncation. Non-trivial = response topic present and (correlation data together with added user properties, or a length within 1 of an owned capacity); distinct = distinct input value.".into(),
            assumptions: vec!["at most one Response Topic / Correlation Data property per inbound PUBLISH (duplicates are a protocol error)".into()],
        },
    )
}

pub fn replay(inp: &Input) -> Vec<Violation> {
    eval(inp).violations
}
