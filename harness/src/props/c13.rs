//! C13 — cancelling a cancel-safe operation loses, duplicates and corrupts nothing.
//!
//! Differential / metamorphic: a program P with a reactive broker is run once uncancelled; then,
//! for every cancellable operation i and every await point k of it (found by counting), P is run
//! again with operation i dropped at k and the connection driven on. The cancelled run must equal
//! the twin *with* operation i or - if the request was not enqueued yet - the twin *without* it.

use crate::cgen::{self, Profile};
use crate::model::Violation;
use crate::refcodec::Packet;
use crate::runner::*;
use crate::scenario::*;
use crate::trace::*;
use crate::view::View;
use crate::world::run_case_with;
use proptest::prelude::*;
use serde::{Deserialize, Serialize};

#[derive(Clone, Debug, PartialEq, Eq, Hash, Serialize, Deserialize)]
pub struct Input {
    pub case: Case,
    /// selects which (operation, await point) pairs are tried when there are more than the budget
    pub sel: Vec<u16>,
    /// explicit list (used by replay files): (conn, step, await)
    #[serde(default)]
    pub only: Vec<(usize, usize, u16)>,
}

fn profile() -> Profile {
    Profile {
        conns: (1, 2),
        steps: (1, 9),
        rx: (200, 256),
        tx: (2048, 2048),
        handshake_failures: 0,
        cancels: false,
        faults: false,
        partial_io: true,
        pend_first_pct: 100,
        keep_session_pct: 100,
        auto_broker_pct: 100,
        w_pub: [2, 6, 6],
        w_sub: 3,
        w_unsub: 2,
        w_poll: 6,
        w_idle: 2,
        w_recv: 2,
        w_drive: 3,
        w_ack: 0,
        w_ackall: 0,
        w_stale: 0,
        w_deliver: 7,
        w_redeliver: 0,
        w_pubrel: 0,
        w_disconnect: 1,
        w_server_disconnect: 0,
        w_setio: 0,
        w_fault: 0,
        w_eof: 0,
        rm: vec![None],
        payload_max: 10,
        topic_max: 4,
        end_forget_pct: 0,
        // time passes between operations (identically in all twins): keep-alive traffic interleaves
        keepalive: vec![0, 0, 4, 30],
        w_advance: 2,
        // whether a planned smaller Maximum Packet Size is applied depends on what the broker model
        // knows at run time (a cancelled request makes it withhold the limit): not comparable
        // between a run and its twins
        shrink_mps_pct: 0,
        lost_pubrecs_pct: 0,
        ..Profile::default()
    }
}

pub fn strategy() -> BoxedStrategy<Input> {
    let p = profile();
    (cgen::case(&p), prop::collection::vec(any::<u16>(), 8), 0u8..10)
        .prop_map(|(mut case, sel, nodrain)| {
            // (a disconnect without a drain carries unacknowledged requests into the next
            // connection: the limit below then holds for the whole program, not per connection)
            let mut heavy_total = 0;
            // sometimes one broker delivery is longer than 127 bytes (two-byte remaining length: a
            // read cancelled between the two bytes must not confuse the framing)
            if sel.first().is_some_and(|x| x % 4 == 0) {
                if let Some(Step::Broker(BrokerAct::Deliver { payload, .. })) =
                    case.conns.iter_mut().flat_map(|c| c.steps.iter_mut()).find(|s| matches!(s, Step::Broker(BrokerAct::Deliver { .. })))
                {
                    *payload = PayloadSpec::new(140, payload.seed);
                }
            }
            for cs in case.conns.iter_mut() {
                // time may pass between operations, but never 5 s with inbound data left unread:
                // otherwise a run whose cancelled poll read less than its twin's would (correctly)
                // hit the keep-alive timeout before it reads the PINGRESP that is already there
                let mut timed = Vec::new();
                for st in cs.steps.drain(..) {
                    match st {
                        Step::Advance { ms } => {
                            timed.push(Step::Advance { ms: ms.min(4000) });
                            timed.push(Step::PollIdle { max: 30 });
                        }
                        other => timed.push(other),
                    }
                }
                cs.steps = timed;
                // keep well below the local in-flight limits so that acceptance never depends on
                // when an acknowledgement happens to be consumed
                let mut heavy = if nodrain < 4 { heavy_total } else { 0 };
                cs.steps.retain(|s| {
                    let h = matches!(s, Step::Publish(p) if p.qos > 0) || matches!(s, Step::Subscribe { .. } | Step::Unsubscribe { .. });
                    if h {
                        heavy += 1;
                    }
                    !h || heavy <= 5
                });
                heavy_total = heavy.min(5);
                // a disconnect in the middle makes the rest of the connection trivial: keep it last
                if let Some(i) = cs.steps.iter().position(|s| matches!(s, Step::Disconnect { .. })) {
                    let d = cs.steps.remove(i);
                    cs.steps.retain(|s| !matches!(s, Step::Disconnect { .. }));
                    // mostly the application drains first; sometimes it disconnects right after
                    // its last operation (then only the request stream is comparable, see eval)
                    if nodrain >= 4 {
                        cs.steps.push(Step::PollIdle { max: 30 });
                    }
                    cs.steps.push(d.clone());
                    // the usual reaction to a cancelled disconnect(): call it again
                    cs.steps.push(d);
                } else {
                    cs.steps.push(Step::PollIdle { max: 30 });
                }
                cs.end = EndHow::Drop;
                cs.connect.io.pend_first = true;
            }
            Input { case, sel, only: vec![] }
        })
        .boxed()
}

#[derive(Clone, Debug, PartialEq)]
pub struct Projection {
    /// per transport: request packets (PUBLISH/SUBSCRIBE/UNSUBSCRIBE/DISCONNECT), DUP masked
    pub requests: Vec<Vec<Vec<u8>>>,
    /// per transport: (type, id, failure?) of PUBACK/PUBREC/PUBCOMP (answers to broker publishes)
    pub reactions: Vec<Vec<(u8, u16, bool)>>,
    /// per transport: PUBREL ids (the client's own QoS 2 exchanges); their order relative to the
    /// answers above depends on when the broker's PUBREC arrives and is not compared
    pub releases: Vec<Vec<u16>>,
    pub deliveries: Vec<Delivered>,
    /// two PINGREQs completed at the same virtual instant on one transport (a cancelled operation
    /// that was sending the due PINGREQ must not make the next one send another)
    pub duplicate_ping: bool,
    pub undecodable: bool,
    pub panic: Option<String>,
    pub quiescent_end: bool,
}

pub fn project(t: &Trace) -> Projection {
    let v = View::build(t);
    let ntr = t.out.len();
    let mut requests = vec![Vec::new(); ntr];
    let mut reactions = vec![Vec::new(); ntr];
    let mut releases = vec![Vec::new(); ntr];
    let mut last_ping: Vec<Option<u64>> = vec![None; ntr];
    let mut duplicate_ping = false;
    for (i, p) in v.out.iter().enumerate() {
        match &p.packet {
            Packet::PingReq => {
                duplicate_ping |= last_ping[p.tr] == Some(p.t_last);
                last_ping[p.tr] = Some(p.t_last);
            }
            Packet::Publish(_) | Packet::Subscribe { .. } | Packet::Unsubscribe { .. } | Packet::Disconnect { .. } => {
                let mut b = v.bytes(i).to_vec();
                if matches!(p.packet, Packet::Publish(_) | Packet::Subscribe { .. } | Packet::Unsubscribe { .. }) {
                    b[0] &= !0x08;
                }
                requests[p.tr].push(b);
            }
            Packet::PubAck(a) => reactions[p.tr].push((4, a.pid, a.code() >= 0x80)),
            Packet::PubRec(a) => reactions[p.tr].push((5, a.pid, a.code() >= 0x80)),
            Packet::PubRel(a) => releases[p.tr].push(a.pid),
            Packet::PubComp(a) => reactions[p.tr].push((7, a.pid, a.code() >= 0x80)),
            _ => {}
        }
    }
    // the broker's PUBREL is triggered by the client's PUBREC, so where it lands among the scripted
    // deliveries depends on transmission timing; the answers are compared as a multiset (their
    // order relative to the inbound order is C04's rule)
    for r in reactions.iter_mut() {
        r.sort();
    }
    let partial_tail = (0..ntr).any(|tr| v.trs[tr].fatal.is_none() && v.trs[tr].tail_start < t.out[tr].len());
    let quiescent_end = t.events.iter().rev().find_map(|e| if let Event::Sample(s) = e { Some(s.quiescent) } else { None }).unwrap_or(true);
    Projection {
        requests,
        reactions,
        releases,
        deliveries: t.deliveries.clone(),
        duplicate_ping,
        undecodable: v.trs.iter().any(|x| x.fatal.is_some()) || partial_tail,
        panic: t.panic.clone(),
        quiescent_end,
    }
}

fn set_cancel(case: &Case, at: (usize, usize), k: u16) -> Case {
    let mut c = case.clone();
    match &mut c.conns[at.0].steps[at.1] {
        Step::Publish(p) => p.cancel = Some(k),
        Step::Subscribe { cancel, .. }
        | Step::Unsubscribe { cancel, .. }
        | Step::Poll { cancel }
        | Step::Recv { cancel }
        | Step::Drive { cancel }
        | Step::Disconnect { cancel, .. } => *cancel = Some(k),
        _ => {}
    }
    c
}

fn without(case: &Case, at: (usize, usize)) -> Case {
    let mut c = case.clone();
    c.conns[at.0].steps.remove(at.1);
    c
}

fn cancellable(s: &Step) -> bool {
    match s {
        Step::Publish(p) => p.qos > 0,
        Step::Subscribe { .. } | Step::Unsubscribe { .. } | Step::Poll { .. } | Step::Recv { .. } | Step::Drive { .. } | Step::Disconnect { .. } => true,
        _ => false,
    }
}

/// Does a disconnect() follow the step on its connection without the application draining the
/// connection (polling until idle) in between? Every later operation does a bounded amount of
/// work, so a run that was set back by a cancellation may still lag behind its twin when the
/// disconnect abandons what is left.
fn cut_short_by_disconnect(case: &Case, at: (usize, usize)) -> bool {
    let steps = &case.conns[at.0].steps;
    let Some(d) = steps.iter().position(|s| matches!(s, Step::Disconnect { .. })) else { return false };
    at.1 < d && !steps[at.1 + 1..d].iter().any(|s| matches!(s, Step::PollIdle { .. }))
}

/// What remains comparable then, on the connection of the cancelled operation: requests go out in
/// order, so the cancelled run's request packets before the DISCONNECT are a prefix of the
/// uncancelled twin's, the DISCONNECTs are the same, and every stream is well-formed.
fn same_lenient(cancelled: &Projection, twin: &Projection, tr: usize) -> bool {
    let split = |p: &Projection| {
        let all = p.requests.get(tr).cloned().unwrap_or_default();
        let (disc, req): (Vec<Vec<u8>>, Vec<Vec<u8>>) = all.into_iter().partition(|b| b.first().is_some_and(|x| x >> 4 == 14));
        (req, disc)
    };
    let (rc, dc) = split(cancelled);
    let (rt, dt) = split(twin);
    rt.starts_with(&rc) && dc == dt && cancelled.undecodable == twin.undecodable && cancelled.panic == twin.panic
}

fn run(case: &Case) -> Trace {
    run_case_with(case, |w| w.cancel_disconnect_midway = true)
}

pub struct Out {
    pub violations: Vec<Violation>,
    pub variants: u64,
    pub after_bytes: u64,
    pub later_await: u64,
    pub watchdog: bool,
    pub excluded_known: u64,
    pub multi: u64,
}

fn describe(a: &Projection, b: &Projection) -> (&'static str, String) {
    if b.panic.is_some() {
        return ("panic", format!("{:?}", b.panic));
    }
    if b.undecodable && !a.undecodable {
        return ("outbound-stream-corrupted", "the cancelled run's outbound stream is not a sequence of MQTT packets".into());
    }
    if a.requests != b.requests {
        let tr = a.requests.iter().zip(b.requests.iter()).position(|(x, y)| x != y).unwrap_or(0);
        return ("request-packets", format!("transport {tr}: uncancelled {:02x?} vs cancelled {:02x?}", a.requests.get(tr), b.requests.get(tr)));
    }
    if a.reactions != b.reactions {
        return ("reaction-packets", format!("uncancelled {:?} vs cancelled {:?}", a.reactions, b.reactions));
    }
    if a.releases != b.releases {
        return ("pubrel-packets", format!("uncancelled {:?} vs cancelled {:?}", a.releases, b.releases));
    }
    if a.duplicate_ping != b.duplicate_ping {
        return ("duplicate-pingreq", "two PINGREQs were completed at the same instant on one transport".into());
    }
    if a.deliveries != b.deliveries {
        return ("deliveries", format!("{} vs {} messages delivered / different contents", a.deliveries.len(), b.deliveries.len()));
    }
    ("final-quiescence", format!("quiescent at the end: {} vs {}", a.quiescent_end, b.quiescent_end))
}

pub fn eval(inp: &Input, budget: usize) -> Out {
    let base = run(&inp.case);
    let pw = project(&base);
    let mut out = Out { violations: vec![], variants: 0, after_bytes: 0, later_await: 0, watchdog: base.watchdog, excluded_known: 0, multi: 0 };
    if let Some(p) = &base.panic {
        out.violations.push(Violation { prop: "PANIC", sig: format!("panic/{}", p.rsplit(" @ ").next().unwrap_or("")), detail: p.clone() });
        return out;
    }
    // candidates: (conn, step, await index)
    let mut cands: Vec<(usize, usize, u16)> = Vec::new();
    if !inp.only.is_empty() {
        cands = inp.only.clone();
    } else {
        for o in &base.ops {
            let (ci, si) = o.step;
            let step = &inp.case.conns[ci].steps[si];
            if !cancellable(step) || matches!(step, Step::PollIdle { .. }) {
                continue;
            }
            let awaits = match o.res {
                OpRes::Blocked { awaits } => awaits,
                _ => o.polls.saturating_sub(1),
            };
            for k in 0..awaits.min(60) as u16 {
                cands.push((ci, si, k));
            }
        }
        if cands.len() > budget {
            // deterministic sample driven by the generated selectors
            let mut picked = Vec::new();
            let n = cands.len();
            for (j, s) in inp.sel.iter().cycle().take(budget).enumerate() {
                let i = ((*s as usize).wrapping_mul(2654435761usize).wrapping_add(j * 7919)) % n;
                picked.push(cands[i]);
            }
            picked.sort();
            picked.dedup();
            cands = picked;
        }
    }
    let mut tried: Vec<(usize, usize, u16)> = Vec::new();
    let mut effective: Vec<(usize, usize, u16)> = Vec::new();
    for (ci, si, k) in cands {
        tried.push((ci, si, k));
        let vcase = set_cancel(&inp.case, (ci, si), k);
        let t = run(&vcase);
        out.variants += 1;
        out.watchdog |= t.watchdog;
        let Some(op) = t.ops.iter().find(|o| o.step == (ci, si)) else { continue };
        if !matches!(op.res, OpRes::Cancelled { .. }) {
            continue; // the operation finished before that await point in this run
        }
        effective.push((ci, si, k));
        let wrote = op.io_calls.1 > op.io_calls.0 && {
            // bytes accepted during the cancelled op
            let view = View::build(&t);
            let _ = view;
            t.events.iter().any(|e| matches!(e, Event::Io(crate::sim::io::IoEvent::Write { .. }))) && op.touches.1 > op.touches.0
        };
        let bytes_during = bytes_written_during(&t, op);
        if bytes_during > 0 {
            out.after_bytes += 1;
        }
        if k >= 1 {
            out.later_await += 1;
        }
        let _ = wrote;
        let pv = project(&t);
        if pv == pw {
            continue;
        }
        // a disconnect() issued right after the cancelled operation (nothing drains in between)
        // legitimately abandons owed acknowledgements and undelivered messages: only the request
        // stream and its well-formedness are comparable then
        let lenient = cut_short_by_disconnect(&inp.case, (ci, si));
        if lenient && same_lenient(&pv, &pw, op.tr) {
            continue;
        }
        let wo = project(&run(&without(&inp.case, (ci, si))));
        if if lenient { same_lenient(&pv, &wo, op.tr) } else { pv == wo } {
            // the request was not enqueued yet (whatever was written during the op belonged to
            // earlier packets): it left no trace
            continue;
        }
        let step = &inp.case.conns[ci].steps[si];
        let kind = crate::model::variant_name(step);
        let (what, detail) = describe(&pw, &pv);
        let sig = if matches!(step, Step::Disconnect { .. }) && disconnect_bytes_written(&t, op) {
            "C13/cancelled-disconnect-after-partial-write".to_string()
        } else {
            format!("C13/differs/{what}/{kind}")
        };
        if !out.violations.iter().any(|x| x.sig == sig) {
            out.violations.push(Violation {
                prop: "C13",
                sig,
                detail: format!("operation (conn {ci}, step {si}: {kind}) dropped at await point {k} after {bytes_during} of its bytes were accepted: {detail}"),
            });
        }
    }
    // two operations cancelled in one run: each either takes full effect or leaves no trace, so the
    // run must equal one of the four with/without twins
    let _ = tried;
    if out.violations.is_empty() && inp.only.is_empty() && effective.len() >= 2 {
        let mut pairs: Vec<((usize, usize, u16), (usize, usize, u16))> = Vec::new();
        let n = effective.len();
        for (j, sl) in inp.sel.iter().enumerate().take(6) {
            let a = effective[(*sl as usize).wrapping_mul(40503).wrapping_add(j) % n];
            let b = effective[(*sl as usize).wrapping_mul(9973).wrapping_add(7 * j + 1) % n];
            // (pairs are only compared where the application drains before it disconnects)
            let drained = !cut_short_by_disconnect(&inp.case, (a.0, a.1)) && !cut_short_by_disconnect(&inp.case, (b.0, b.1));
            if drained && (a.0, a.1) < (b.0, b.1) && !pairs.contains(&(a, b)) {
                pairs.push((a, b));
            }
        }
        for (a, b) in pairs.into_iter().take(if budget > 100 { 6 } else { 3 }) {
            let both = set_cancel(&set_cancel(&inp.case, (a.0, a.1), a.2), (b.0, b.1), b.2);
            let t = run(&both);
            out.variants += 1;
            out.watchdog |= t.watchdog;
            let cancelled = |st: (usize, usize)| t.ops.iter().find(|o| o.step == st).is_some_and(|o| matches!(o.res, OpRes::Cancelled { .. }));
            if !cancelled((a.0, a.1)) || !cancelled((b.0, b.1)) {
                continue;
            }
            out.multi += 1;
            let pv = project(&t);
            let same = |x: &Projection, y: &Projection| x == y;
            if same(&pv, &pw) {
                continue;
            }
            // without b first: removing the later step keeps a's index valid
            let wo_b = without(&inp.case, (b.0, b.1));
            let wo_a = without(&inp.case, (a.0, a.1));
            let wo_ab = without(&wo_b, (a.0, a.1));
            if [wo_a, wo_b, wo_ab].iter().any(|c| same(&pv, &project(&run(c)))) {
                continue;
            }
            let (what, detail) = describe(&pw, &pv);
            let sig = if [a, b].iter().any(|x| matches!(inp.case.conns[x.0].steps[x.1], Step::Disconnect { .. })) && {
                let dop = t.ops.iter().find(|o| matches!(inp.case.conns[o.step.0].steps.get(o.step.1), Some(Step::Disconnect { .. })) && matches!(o.res, OpRes::Cancelled { .. }));
                dop.is_some_and(|o| disconnect_bytes_written(&t, o))
            } {
                "C13/cancelled-disconnect-after-partial-write".to_string()
            } else {
                format!("C13/differs-after-two-cancellations/{what}")
            };
            if !out.violations.iter().any(|x| x.sig == sig) {
                out.violations.push(Violation {
                    prop: "C13",
                    sig,
                    detail: format!("operations (conn {}, step {}) and (conn {}, step {}) dropped at await points {} and {}: equals none of the four with/without twins; against the uncancelled run: {detail}", a.0, a.1, b.0, b.1, a.2, b.2),
                });
            }
        }
    }
    out
}

/// Did the cancelled disconnect put at least the first byte of its DISCONNECT on the wire?
fn disconnect_bytes_written(t: &Trace, op: &OpRec) -> bool {
    let idx = t.ops.iter().position(|o| std::ptr::eq(o, op)).unwrap_or(usize::MAX);
    let mut inside = false;
    let (mut lo, mut hi) = (usize::MAX, 0usize);
    for e in &t.events {
        match e {
            Event::OpStart { op: o, .. } if *o == idx => inside = true,
            Event::OpEnd { op: o, .. } if *o == idx => break,
            Event::Io(crate::sim::io::IoEvent::Write { off, n, tr, .. }) if inside && *tr == op.tr => {
                lo = lo.min(*off);
                hi = hi.max(off + n);
            }
            _ => {}
        }
    }
    if lo == usize::MAX {
        return false;
    }
    let v = View::build(t);
    let started_here = v.out.iter().any(|p| p.tr == op.tr && p.start >= lo && p.start < hi && matches!(p.packet, Packet::Disconnect { .. }));
    let tail = v.trs[op.tr].tail_start;
    started_here || (tail >= lo && tail < hi && t.out[op.tr].get(tail) == Some(&0xE0))
}

fn bytes_written_during(t: &Trace, op: &OpRec) -> usize {
    // sum of write sizes between the op's OpStart and OpEnd events
    let mut inside = false;
    let mut n = 0;
    let idx = t.ops.iter().position(|o| std::ptr::eq(o, op)).unwrap_or(usize::MAX);
    for e in &t.events {
        match e {
            Event::OpStart { op: o, .. } if *o == idx => inside = true,
            Event::OpEnd { op: o, .. } if *o == idx => break,
            Event::Io(crate::sim::io::IoEvent::Write { n: w, .. }) if inside => n += *w,
            _ => {}
        }
    }
    n
}

/// Second family (not differential against acknowledgement timing): the cancelled request is the
/// one that *fills* the send window. Receive Maximum w (1..4, or absent = the local limit of 8),
/// w-1 unacknowledged QoS 1/2 publishes, then the w-th publish is dropped at a generated await
/// point under partial writes; the application polls on, the broker acknowledges everything, the
/// session is resumed once more. Oracle: the history monitor of C01/C02/C03/C06/C09 (well-formed
/// stream, nothing lost, duplicated or corrupted) must report nothing that it does not also report
/// for the twin without the cancellation.
pub fn window_edge_cases() -> Vec<Case> {
    let mut out = Vec::new();
    let chunks: [&[u16]; 4] = [&[], &[1], &[3], &[2, 5]];
    for w in [Some(1u16), Some(2), Some(3), Some(4), None] {
        let n = w.unwrap_or(8) as usize;
        for fq in 1u8..3 {
            for tq in 1u8..3 {
                for k in 0u16..7 {
                    for (ci, ch) in chunks.iter().enumerate() {
                        let mut steps = vec![Step::SetIo(IoCfg { read_chunks: vec![], write_chunks: ch.to_vec(), pend_first: true, read_cuts: vec![] })];
                        for i in 0..n - 1 {
                            steps.push(Step::Publish(PubSpec::simple(if i % 2 == 0 { fq } else { 3 - fq }, 2, 3, i as u8)));
                        }
                        steps.push(Step::Publish(PubSpec { cancel: Some(k), ..PubSpec::simple(tq, 3, 6, 200 + ci as u8) }));
                        steps.push(Step::PollIdle { max: 20 });
                        // a QoS 0 publish right behind it (must not be spliced into a half-written packet)
                        steps.push(Step::Publish(PubSpec::simple(0, 2, 2, 77)));
                        for _ in 0..2 {
                            steps.push(Step::Broker(BrokerAct::AckAll { reverse: false }));
                            steps.push(Step::PollIdle { max: 30 });
                        }
                        let drain = vec![
                            Step::PollIdle { max: 30 },
                            Step::Broker(BrokerAct::AckAll { reverse: false }),
                            Step::PollIdle { max: 30 },
                            Step::Broker(BrokerAct::AckAll { reverse: false }),
                            Step::PollIdle { max: 30 },
                        ];
                        let connect = ConnectSpec { props: ConnackProps { receive_max: w, ..ConnackProps::default() }, ..ConnectSpec::default() };
                        out.push(Case {
                            cfg: Cfg { rx: 256, tx: 2048, ..Cfg::default() },
                            broker: BrokerMode::Scripted,
                            conns: vec![
                                ConnScript { connect: connect.clone(), steps, end: EndHow::Drop },
                                ConnScript { connect, steps: drain, end: EndHow::Drop },
                            ],
                        });
                    }
                }
            }
        }
    }
    out
}

fn without_cancel(case: &Case) -> Case {
    let mut c = case.clone();
    for cs in c.conns.iter_mut() {
        for st in cs.steps.iter_mut() {
            if let Step::Publish(ps) = st {
                ps.cancel = None;
            }
        }
        // (and whole writes: with short writes the window-filling publish is suspended and resumed
        // inside publish() itself, which is the same code path as after a cancellation)
        cs.steps.retain(|s| !matches!(s, Step::SetIo(_)));
    }
    c
}

/// Returns (violations attributed to the cancellation, was the operation really cancelled).
pub fn eval_edge(case: &Case) -> (Vec<Violation>, bool, bool) {
    let (v, _, t) = crate::props::scen::eval_case(case);
    let cancelled = t.ops.iter().any(|o| matches!(o.res, OpRes::Cancelled { .. }));
    if v.is_empty() {
        return (vec![], cancelled, t.watchdog);
    }
    let (v0, _, _) = crate::props::scen::eval_case(&without_cancel(case));
    let mine = v
        .into_iter()
        .filter(|x| !v0.iter().any(|y| y.sig == x.sig))
        .map(|x| Violation { prop: "C13", sig: format!("C13/window-edge-cancel/{}", x.sig), detail: format!("only with the window-filling publish cancelled: {}", x.detail) })
        .collect();
    (mine, cancelled, t.watchdog)
}

pub fn run_check(ctx: &Ctx) -> i32 {
    let cases = ctx.tier.pick(10_000, 300_000);
    let budget = ctx.tier.pick(40, 160);
    let mut pre = Agg::default();
    let edge = window_edge_cases();
    let n_edge = edge.len();
    for case in &edge {
        let (violations, cancelled, watchdog) = eval_edge(case);
        pre.record(ctx, "c13-edge", case, Eval { nontrivial: cancelled, violations, classes: vec!["window-filling-publish-cancelled"], watchdog });
    }
    pre.extra.insert("window_edge_cases".into(), serde_json::json!(n_edge));
    let mut agg = run_prop(ctx, "c13-input", 16, cases, strategy, |inp: &Input| {
        let o = eval(inp, budget);
        let mut classes = Vec::new();
        if o.after_bytes > 0 {
            classes.push("cancelled-after-bytes-accepted");
        }
        if o.later_await > 0 {
            classes.push("cancelled-at-second-or-later-await");
        }
        if inp.case.conns.len() > 1 {
            classes.push("two-connections");
        }
        if o.multi > 0 {
            classes.push("two-operations-cancelled-in-one-run");
        }
        Eval { nontrivial: o.after_bytes > 0 || o.later_await > 0, violations: o.violations, classes, watchdog: o.watchdog }
    });
    let pre_failed = pre.failure.clone();
    agg.merge(pre);
    if pre_failed.is_some() {
        agg.failure = pre_failed;
    }
    finish(
        ctx,
        agg,
        Report {
            level: "exploration",
            rule: "random program of 1-2 connections x 1-9 steps (QoS 1/2 publishes, subscribe, unsubscribe, poll, recv, drive, broker deliveries of all QoS, final disconnect) against a reactive broker (acks every complete packet), pend-first transport with 1-byte / small partial writes so that every read, every accepted byte, every flush is an await point; await points counted in an uncancelled run; then each (operation, await point) pair - all of them when <= budget (quick 40, thorough 160), a generated sample otherwise - is run with that operation dropped there and the connection driven to idle. Oracle: per-transport sequence of request packets (DUP masked), per-transport sequence of PUBACK/PUBREC/PUBREL/PUBCOMP, sequence of delivered messages and final quiescence equal the uncancelled twin, or the twin without the operation if it left no trace; additionally a thinned set of pairs of cancellations in one run is compared against the four with/without combinations. Second family (enumerated, 560 cases): Receive Maximum 1-4 or absent, window-1 unacknowledged QoS 1/2 publishes, the window-filling publish dropped at await point 0-6 under four partial-write patterns, a QoS 0 publish right behind it, acknowledgements, one resumed connection; oracle = the history monitor (well-formed stream, nothing lost / duplicated / corrupted, Receive Maximum) reports nothing that the twin without the cancellation (and with whole writes) does not. Non-trivial = a cancellation after >= 1 byte of the operation was accepted, or at a second/later await point (second family: the operation was really dropped); distinct = distinct (program, selectors).".into(),
            assumptions: vec![
                "QoS 0 publish is documented as not cancel-safe and is never cancelled".into(),
                "first family: local in-flight limits are never reached (<= 5 retained requests per connection), so acceptance does not depend on acknowledgement timing; the window edge is the second family's subject".into(),
            ],
        },
    )
}

pub fn replay(inp: &Input) -> Vec<Violation> {
    eval(inp, 400).violations
}
