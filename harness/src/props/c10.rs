//! C10 — keep-alive: PINGREQ cadence and dead-peer detection follow the negotiated time.
//!
//! The harness owns the clock: while the application sits in poll() virtual time jumps exactly to
//! the client's next timer deadline (plus generated executor latency) or to the next scheduled
//! inbound arrival. All judgements are over virtual timestamps of completed packets.

use crate::model::Violation;
use crate::refcodec::{Packet, Prop};
use crate::runner::*;
use crate::scenario::*;
use crate::sim::clock::{TICKS_PER_MS, TICKS_PER_S};
use crate::trace::*;
use crate::view::{TL, View};
use crate::world::run_case;
use proptest::prelude::*;

/// Documented upper bound for one keep-alive round trip (README "Transport And Time",
/// `ROUND_TRIP_TIMEOUT_MS` in session/state.rs).
pub const ROUND_TRIP: u64 = 5 * TICKS_PER_S;
const SLACK: u64 = 2 * TICKS_PER_MS;

fn keepalive() -> BoxedStrategy<u16> {
    prop_oneof![
        3 => prop::sample::select(vec![0u16, 1, 2, 3, 4, 5, 9, 10, 11, 12, 60, 65535]),
        2 => 1u16..30,
        1 => 30u16..600,
    ]
    .boxed()
}

pub fn strategy() -> BoxedStrategy<Case> {
    let prelude = prop_oneof![
        3 => Just(None),
        2 => (prop_oneof![2 => Just(None), 3 => keepalive().prop_map(Some)], 0u8..6, any::<u16>()).prop_map(Some),
    ];
    (keepalive(), prop_oneof![3 => Just(None), 2 => keepalive().prop_map(Some)], 0u8..6, prop::collection::vec((0u8..10, any::<u16>()), 1..4), prop::collection::vec((0u8..8, 0u8..9, any::<u16>()), 2..9), any::<u8>(), prelude)
        .prop_map(|(k, s, jsel, pings, segs, hsel, prelude)| {
            // executor latency stays below the client's own lead time and waits are sized in units
            // of the keep-alive. Without an override on the judged connection the client may go by
            // the configured value or by the Server Keep Alive it learnt on the earlier connection
            // (it then advertises that one in CONNECT): the smaller of the two sizes everything.
            let e_cfg = s.unwrap_or(k) as u64;
            let e = match (s, &prelude) {
                (None, Some((Some(s0), _, _))) if *s0 > 0 => if e_cfg == 0 { *s0 as u64 } else { e_cfg.min(*s0 as u64) },
                _ => e_cfg,
            };
            let e_us = e * TICKS_PER_S;
            let lead = ROUND_TRIP.min(e_us / 2);
            let interval = e_us.saturating_sub(lead);
            let lead_min = lead;
            let jitter = if e == 0 {
                0
            } else {
                let maxj = lead_min.saturating_sub(1).min(2 * TICKS_PER_S);
                match jsel {
                    0 | 1 => 0,
                    2 => 1.min(maxj),
                    3 => TICKS_PER_MS.min(maxj),
                    4 => maxj / 2,
                    _ => maxj,
                }
            };
            let ping_delays: Vec<Option<u64>> = pings
                .iter()
                .map(|(sel, r)| match sel {
                    0 | 1 => Some(0),
                    2 => Some(TICKS_PER_MS),
                    3 => Some(e_us / 2),
                    4 => Some((e_us + TICKS_PER_MS).min(ROUND_TRIP - 1)),
                    5 => Some(ROUND_TRIP - 1),
                    6 => Some(ROUND_TRIP + jitter + SLACK + 1),
                    7 => Some(ROUND_TRIP + 3 * TICKS_PER_S),
                    8 => Some((*r as u64 * 100) % ROUND_TRIP),
                    _ => None,
                })
                .collect();
            let mut steps: Vec<Step> = Vec::new();
            let unit_ms = if e == 0 { 20_000 } else { (e_us / TICKS_PER_MS).min(40_000) };
            for (len_sel, act, r) in &segs {
                let ms = match len_sel {
                    0 => unit_ms / 3,
                    1 => interval / TICKS_PER_MS,                    // lands exactly on the PINGREQ deadline
                    2 => (interval / TICKS_PER_MS).saturating_sub(1),
                    3 => interval / TICKS_PER_MS + 1,
                    4 => unit_ms,
                    5 => 2 * unit_ms + 7,
                    6 => 6_000,
                    _ => (*r as u64 * 7) % (3 * unit_ms + 1),
                };
                match act {
                    0 => steps.push(Step::Publish(PubSpec::simple(0, 2, 2, *r as u8))),
                    1 => steps.push(Step::Publish(PubSpec::simple(1, 2, 2, *r as u8))),
                    2 => steps.push(Step::DeliverAt {
                        delay_ms: (ms / 2) as u32,
                        qos: 1,
                        payload: PayloadSpec::new(2, *r as u8),
                        // sometimes the packet arrives in two parts: the tail a little later, after
                        // the next deadlines, or never (the peer stalls in the middle of a packet)
                        split: match *r % 11 {
                            0 => Some((1 + (*r as u8 / 11) % 6, 300)),
                            1 => Some((1 + (*r as u8 / 11) % 6, (2 * unit_ms + 900) as u32)),
                            2 => Some((1 + (*r as u8 / 11) % 6, u32::MAX)),
                            _ => None,
                        },
                    }),
                    3 => steps.push(Step::DeliverAt { delay_ms: ms as u32, qos: 0, payload: PayloadSpec::new(2, *r as u8), split: if *r % 13 == 5 { Some((2, 700)) } else { None } }),
                    // requests that put nothing on the wire must not count as keep-alive traffic:
                    // a subscribe / unsubscribe (queued when the window is full, see `paced`) ...
                    4 => steps.push(Step::Subscribe {
                        filters: vec![(TopicSpec::new(2, *r as u8), crate::refcodec::SubOpts { qos: 1, no_local: false, rap: false, retain_handling: 0 })],
                        props: vec![],
                        cancel: None,
                    }),
                    5 => steps.push(Step::Unsubscribe { filters: vec![TopicSpec::new(2, *r as u8)], props: vec![], cancel: None }),
                    // ... and a QoS 0 publish that is refused as too large (Maximum Packet Size 30)
                    6 => steps.push(Step::Publish(PubSpec::simple(0, 2, 40, *r as u8))),
                    _ => {}
                }
                steps.push(Step::PollFor { ms: ms as u32 });
            }
            // a long final wait: at least 20 keep-alive periods (capped for huge keep-alives)
            let tail = match hsel % 3 {
                0 => 20 * unit_ms,
                1 => 3 * unit_ms + 11_000,
                _ => 12_000,
            };
            steps.push(Step::PollFor { ms: tail.min(4_000_000) as u32 });
            let mut conns = Vec::new();
            let mut paced = false;
            if let Some((s0, ending, r)) = prelude {
                // an earlier connection of the same session with its own (or no) Server Keep Alive:
                // nothing of its keep-alive state may leak into the connection that is judged
                let e0 = s0.unwrap_or(k) as u64 * TICKS_PER_S;
                let interval0 = e0.saturating_sub(ROUND_TRIP.min(e0 / 2)) / TICKS_PER_MS;
                let mut st = vec![Step::PollFor { ms: ((r as u64 * 13) % (2 * interval0 + 2_000)).min(60_000) as u32 }];
                let mut io = IoCfg::default();
                let mut end = EndHow::Drop;
                match ending {
                    0 => {}
                    1 => end = EndHow::Forget,
                    2 => st.push(Step::Publish(PubSpec::simple(1, 2, 2, r as u8))),
                    4 | 5 => {
                        // three publishes stay unacknowledged; the judged connection announces a
                        // Receive Maximum of 1, so their replay is paced and requests queue behind it
                        st.push(Step::SetBroker(BrokerMode::Scripted));
                        for i in 0..3u8 {
                            st.push(Step::Publish(PubSpec::simple(1, 2, 2, i)));
                        }
                        paced = true;
                    }
                    _ => {
                        // the connection is abandoned while a PINGREQ is queued but not yet written
                        io.pend_first = true;
                        st.push(Step::Advance { ms: (interval0 + 1).min(4_000_000) as u32 });
                        st.push(Step::Poll { cancel: Some(0) });
                    }
                }
                conns.push(ConnScript { connect: ConnectSpec { props: ConnackProps { server_keepalive: s0, ..ConnackProps::default() }, io, ..ConnectSpec::default() }, steps: st, end });
            }
            let small_limit = segs.iter().any(|x| x.1 == 6);
            conns.push(ConnScript {
                connect: ConnectSpec {
                    props: ConnackProps {
                        server_keepalive: s,
                        receive_max: if paced { Some(1) } else { None },
                        max_packet: if small_limit { Some(30) } else { None },
                        ..ConnackProps::default()
                    },
                    ..ConnectSpec::default()
                },
                steps,
                end: EndHow::Drop,
            });
            Case { cfg: Cfg { keepalive: k, jitter_us: jitter, ping_delays_us: ping_delays, ..Cfg::default() }, broker: BrokerMode::AutoAck, conns }
        })
        .boxed()
}

pub struct Out {
    pub violations: Vec<Violation>,
    pub pings: usize,
    pub late_or_absent: bool,
    pub coincidence: bool,
    pub watchdog: bool,
    pub busy_repolls: u64,
}

pub fn eval(case: &Case) -> Out {
    let trace = run_case(case);
    let view = View::build(&trace);
    let mut v: Vec<Violation> = Vec::new();
    let bad = |v: &mut Vec<Violation>, sig: String, detail: String| {
        if !v.iter().any(|x| x.sig == sig) {
            v.push(Violation { prop: "C10", sig, detail });
        }
    };
    if let Some(p) = &trace.panic {
        let loc = p.rsplit(" @ ").next().unwrap_or("").to_string();
        v.push(Violation { prop: "PANIC", sig: format!("panic/{loc}"), detail: p.clone() });
    }
    let mut out = Out { violations: vec![], pings: 0, late_or_absent: false, coincidence: false, watchdog: trace.watchdog, busy_repolls: trace.ops.iter().map(|o| o.busy_repolls as u64).sum() };
    // negotiated keep-alive: what CONNECT asked, overridden by the CONNACK
    // the connection that is judged is the last one (an optional earlier one only sets the scene)
    let jt = case.conns.len() - 1;
    let asked = view.out.iter().filter(|p| p.tr == jt).find_map(|p| if let Packet::Connect(c) = &p.packet { Some(c.keep_alive) } else { None });
    let server = trace.inbound.iter().filter(|p| p.tr == jt).find_map(|p| match &p.packet {
        Some(Packet::ConnAck { props, .. }) => props.iter().find_map(|q| if let Prop::ServerKeepAlive(s) = q { Some(*s) } else { None }),
        _ => None,
    });
    let (Some(asked), true) = (asked, trace.conns.len() == case.conns.len() && trace.conns.iter().all(|c| c.1.is_ok())) else {
        out.violations = v;
        return out;
    };
    // On the first connection of a session there is nothing the client could have learnt earlier:
    // the CONNECT must carry the configured keep-alive.
    if case.conns.len() == 1 && asked != case.cfg.keepalive {
        bad(&mut v, "C10/connect-keepalive-differs-from-configured".into(), format!("the first CONNECT of the session advertises keep-alive {asked} s, configured {} s", case.cfg.keepalive));
    }
    let e_us = server.unwrap_or(if case.conns.len() == 1 { case.cfg.keepalive } else { asked }) as u64 * TICKS_PER_S;
    // timeline of interesting instants
    let mut t0 = 0u64;
    let mut sent: Vec<(u64, bool)> = Vec::new(); // (completion time, is PINGREQ)
    let mut pingresp_read: Vec<u64> = Vec::new();
    for item in &view.tl {
        match item {
            TL::InDone(i, _) if trace.inbound[*i].tr != jt => {}
            TL::OutDone(p) if view.out[*p].tr != jt => {}
            TL::InDone(i, t) => match &trace.inbound[*i].packet {
                Some(Packet::ConnAck { .. }) => t0 = *t,
                Some(Packet::PingResp) => pingresp_read.push(*t),
                _ => {}
            },
            TL::OutDone(p) => {
                let o = &view.out[*p];
                if !matches!(o.packet, Packet::Connect(_)) {
                    sent.push((o.t_last, matches!(o.packet, Packet::PingReq)));
                }
            }
            _ => {}
        }
    }
    let death = trace.ops.iter().filter(|o| o.tr == jt).find(|o| matches!(o.res, OpRes::Err(ErrKind::Disconnected | ErrKind::Transport | ErrKind::InvalidPacket))).map(|o| (o.t.1, o.res.clone()));
    let t_end = trace.ops.iter().filter(|o| o.tr == jt).last().map(|o| o.t.1).unwrap_or(t0);
    let alive_until = death.as_ref().map(|d| d.0).unwrap_or(t_end);
    out.pings = sent.iter().filter(|s| s.1).count();
    // PINGRESP arrival (readable) times in PINGREQ order
    let arrivals: Vec<u64> = trace.inbound.iter().filter(|p| p.tr == jt && matches!(p.packet, Some(Packet::PingResp))).map(|p| p.at).collect();
    // ---- R2: keep-alive 0 sends no pings
    if e_us == 0 {
        if out.pings > 0 {
            bad(&mut v, "C10/ping-with-keepalive-zero".into(), format!("{} PINGREQ sent although the effective keep-alive is 0", out.pings));
        }
        out.violations = v;
        return out;
    }
    // ---- R1: gaps between consecutive completed client packets
    let mut prev = t0;
    let mut points: Vec<u64> = sent.iter().map(|s| s.0).collect();
    points.push(alive_until);
    let jitter = case.cfg.jitter_us;
    for (i, t) in points.iter().enumerate() {
        if *t > prev + e_us + SLACK {
            // was a PINGREQ outstanding when the keep-alive ran out?
            let deadline = prev + e_us;
            let outstanding = sent.iter().zip(0..).any(|(s, _)| s.1 && s.0 <= deadline && {
                // index of this ping among pings
                let pi = sent.iter().filter(|x| x.1 && x.0 < s.0).count();
                arrivals.get(pi).is_none_or(|a| *a > deadline) && pingresp_read.get(pi).is_none_or(|r| *r > deadline)
            });
            let kind = match (outstanding, e_us < ROUND_TRIP) {
                (true, true) => "awaiting-pingresp,keepalive-below-round-trip-bound",
                (true, false) => "awaiting-pingresp",
                (false, _) => "idle",
            };
            let last = i == points.len() - 1;
            bad(&mut v, format!("C10/gap-exceeds-keepalive/{kind}"), format!("effective keep-alive {} s: no client packet completed between t={} us and t={} us ({}){}", e_us / TICKS_PER_S, prev, t, if outstanding { "a PINGREQ was waiting for its PINGRESP" } else { "nothing was outstanding" }, if last { " [end of the observed wait]" } else { "" }));
        }
        prev = *t;
        if i + 1 == points.len() {
            break;
        }
    }
    // ---- R3: dead-peer detection
    let mut pi = 0usize;
    for (t_p, is_ping) in &sent {
        if !*is_ping {
            continue;
        }
        let arrival = arrivals.get(pi).copied();
        pi += 1;
        let bound = *t_p + ROUND_TRIP;
        match arrival {
            Some(a) if a < bound => {
                // answered in time: a disconnect before the next ping's own bound is not allowed
                if a + 1 >= bound {
                    out.coincidence = true;
                }
            }
            Some(a) if a <= bound + jitter + SLACK => {
                // readable at the bound or within the injected wake-up latency after it: the
                // client cannot tell this from "in time" - unspecified
                out.coincidence = true;
                break;
            }
            _ => {
                out.late_or_absent = true;
                // must be detected at the bound, not earlier, not (much) later
                match &death {
                    Some((t_d, res)) => {
                        if *t_d < bound {
                            bad(&mut v, "C10/timeout-too-early".into(), format!("PINGREQ completed at t={t_p} us, unanswered; wait ended with {res:?} at t={t_d} us, {} us before the round-trip bound", bound - t_d));
                        } else if *t_d > bound + jitter + SLACK {
                            bad(&mut v, "C10/dead-peer-detected-late".into(), format!("PINGREQ completed at t={t_p} us, unanswered; disconnect reported at t={t_d} us, {} us after the bound", t_d - bound));
                        } else if *res != OpRes::Err(ErrKind::Disconnected) {
                            bad(&mut v, "C10/timeout-error-kind".into(), format!("keep-alive timeout surfaced as {res:?}"));
                        }
                    }
                    None => {
                        if t_end > bound + jitter + SLACK {
                            bad(&mut v, "C10/dead-peer-not-detected".into(), format!("PINGREQ completed at t={t_p} us was never answered, application stayed in poll() until t={t_end} us, no disconnect"));
                        }
                    }
                }
                break;
            }
        }
    }
    // a disconnect although every PINGREQ so far was answered in time
    if let Some((t_d, res)) = &death {
        let mut pi = 0usize;
        let mut excused = false;
        for (t_p, is_ping) in &sent {
            if !*is_ping || *t_p > *t_d {
                continue;
            }
            let a = arrivals.get(pi).copied();
            pi += 1;
            if a.is_none_or(|a| a >= *t_p + ROUND_TRIP) {
                excused = true;
            }
        }
        if !excused {
            bad(&mut v, "C10/disconnect-despite-timely-pingresp".into(), format!("wait ended with {res:?} at t={t_d} us although every PINGREQ was answered within the round-trip bound"));
        }
    }
    // deadline coincidences produced by the generator
    for o in trace.ops.iter().filter(|o| o.tr == jt) {
        if o.kind == OpKind::Publish && sent.iter().any(|s| s.1 && s.0 == o.t.0) {
            out.coincidence = true;
        }
    }
    out.violations = v;
    out
}

pub fn run(ctx: &Ctx) -> i32 {
    let cases = ctx.tier.pick(120_000, 4_000_000);
    let agg = run_prop(ctx, "case-c10", 16, cases, strategy, |case: &Case| {
        let out = eval(case);
        let mut classes = Vec::new();
        if out.pings > 0 {
            classes.push("pingreq-sent");
        }
        if out.late_or_absent {
            classes.push("pingresp-late-or-absent");
        }
        if out.coincidence {
            classes.push("deadline-coincidence");
        }
        if out.busy_repolls > 0 {
            classes.push("busy-repoll-observed");
        }
        let judged = case.conns.last().unwrap();
        if judged.connect.props.server_keepalive == Some(0) || (case.cfg.keepalive == 0 && judged.connect.props.server_keepalive.is_none()) {
            classes.push("keepalive-zero");
        }
        if judged.connect.props.server_keepalive.is_some() {
            classes.push("server-keepalive-override");
        }
        if case.conns.len() > 1 {
            classes.push("earlier-connection-with-other-keepalive-state");
        }
        Eval { nontrivial: out.pings > 0 && (out.late_or_absent || out.coincidence), violations: out.violations, classes, watchdog: out.watchdog }
    });
    // saved regressions (shrunk inputs of defects found earlier), replayed without the generator
    let mut agg = agg;
    if let Ok(rd) = std::fs::read_dir(format!("{}/corpus/C10", VERIF_ROOT)) {
        let mut files: Vec<_> = rd.flatten().map(|e| e.path()).filter(|p| p.extension().is_some_and(|x| x == "json")).collect();
        files.sort();
        let mut pre = Agg::default();
        for f in files {
            let Ok(text) = std::fs::read_to_string(&f) else { continue };
            let Ok(v) = serde_json::from_str::<serde_json::Value>(&text) else { continue };
            let Ok(case) = serde_json::from_value::<Case>(v["input"].clone()) else { continue };
            let out = eval(&case);
            pre.record(ctx, "case-c10", &case, Eval { nontrivial: out.pings > 0, classes: vec!["saved-regression-input"], violations: out.violations, watchdog: out.watchdog });
        }
        let f = pre.failure.clone();
        agg.merge(pre);
        if f.is_some() {
            agg.failure = f;
        }
    }
    finish(
        ctx,
        agg,
        Report {
            level: "exploration",
            rule: "keep-alive from {0,1,2,3,4,5,9,10,11,12,60,65535} or random, optional Server Keep Alive override, executor latency from {0, 1 us, 1 ms, lead/2, lead-1 us}; the application alternates publishes / scheduled inbound deliveries with poll() waits whose lengths land before, exactly on and after the PINGREQ deadline, then waits for >= 20 keep-alive periods; requests that put nothing on the wire are mixed in (subscribe/unsubscribe queued behind a paced replay - three unacknowledged publishes resumed under Receive Maximum 1 - and QoS 0 publishes refused under Maximum Packet Size 30); in 40 % of the cases an earlier connection of the same session comes first, with its own or no Server Keep Alive, ended by drop / leak / with a publish in flight / while a PINGREQ is queued but unwritten, and the judged connection resumes the session; PINGRESP delay per PINGREQ from {0, 1 ms, keep-alive/2, keep-alive+1 ms, bound-1 us, bound+1 us, bound+3 s, random, never}. Virtual time jumps to the client's own timer deadlines. Oracle over virtual timestamps: gap between consecutive completed client packets (from CONNACK) <= effective keep-alive; keep-alive 0 => no PINGREQ; unanswered PINGREQ => Disconnected at completion+5 s (not earlier, not later than that plus injected latency); PINGRESP readable before the bound => no disconnect. Non-trivial = at least one PINGREQ and (a late/absent PINGRESP or a deadline coincidence); distinct = distinct case value.".into(),
            assumptions: vec![
                "5 s round-trip bound as documented (README, session/state.rs)".into(),
                "a PINGRESP that becomes readable exactly at the bound is unspecified".into(),
                "transport writes complete instantly; executor latency is below the client's own lead time".into(),
            ],
        },
    )
}

pub fn replay(case: &Case) -> Vec<Violation> {
    eval(case).violations
}
