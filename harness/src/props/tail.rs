//! C12 — the session can always be reconnected, whatever happened before.
//! C16 — with a responsive broker every accepted operation completes and the session quiesces
//!        within a bounded number of steps and bytes.
//!
//! Both quantify over "any reachable state": an arbitrary generated prefix history (faults,
//! cancellations, failed handshakes, leaked handles, full arenas) is followed by a *benign
//! continuation*: a healthy transport, a conformant broker that resumes the session and
//! acknowledges everything at once, and an application that calls poll() until it blocks and then
//! probes the session.

use crate::cgen::{self, Profile};
use crate::model::{Model, Stats, Violation};
use crate::refcodec::Packet;
use crate::runner::*;
use crate::scenario::*;
use crate::trace::*;
use crate::view::View;
use crate::world::run_case;
use proptest::prelude::*;

const DRAIN_MAX: u16 = 120;

fn prefix_profile() -> Profile {
    Profile {
        conns: (1, 4),
        steps: (0, 10),
        // 12 bytes is the smallest receive buffer into which the broker can fit the packets of the
        // probe (SUBACK 6, QoS 1 PUBLISH 8 bytes); smaller ones cannot complete a subscribe at all
        rx: (12, 256),
        tx: (32, 2048),
        handshake_failures: 25,
        end_forget_pct: 20,
        w_fault: 3,
        w_eof: 1,
        w_pub: [2, 7, 6],
        payload_max: 120,
        auto_broker_pct: 20,
        max_packet: vec![None, None, Some(24), Some(80)],
        keepalive: vec![0, 0, 2, 4, 30],
        w_advance: 2,
        w_pingresp: 1,
        shrink_mps_pct: 30,
        max_qos: vec![None, None, Some(0), Some(1)],
        ..Profile::default()
    }
}

fn final_script(first: &ConnectSpec, keep_session: bool) -> ConnScript {
    ConnScript {
        connect: ConnectSpec {
            handshake: Handshake::Accept,
            keep_session,
            props: ConnackProps { server_keepalive: None, assigned_id: None, extra: vec![], ..first.props.clone() },
            io: IoCfg::default(),
            lost_pubrecs: false,
        },
        steps: final_steps(),
        end: EndHow::Drop,
    }
}

fn final_steps() -> Vec<Step> {
    let so = crate::refcodec::SubOpts { qos: 1, no_local: false, rap: false, retain_handling: 0 };
    vec![
            Step::SetBroker(BrokerMode::AutoAck),
            Step::PollIdle { max: DRAIN_MAX },
            // time passes: deadlines left over from earlier connections must not fire here
            Step::Advance { ms: 5500 },
            Step::PollIdle { max: 20 },
            // usability probe
            Step::Broker(BrokerAct::Deliver { qos: 1, retain: false, topic: TopicSpec::new(1, 0), payload: PayloadSpec::new(0, 1), props: vec![], redeliver: None }),
            Step::PollIdle { max: 20 },
            Step::Publish(PubSpec::simple(1, 1, 0, 2)),
            Step::PollIdle { max: 20 },
            Step::Publish(PubSpec::simple(1, 2, 100, 3)),
            Step::PollIdle { max: 20 },
            Step::Subscribe { filters: vec![(TopicSpec::new(1, 0), so)], props: vec![], cancel: None },
            Step::PollIdle { max: 20 },
            // the whole send window / all slots must be available again
            Step::SetBroker(BrokerMode::Scripted),
            Step::Publish(PubSpec::simple(1, 1, 0, 10)),
            Step::Publish(PubSpec::simple(2, 1, 0, 11)),
            Step::Publish(PubSpec::simple(1, 1, 0, 12)),
            Step::Publish(PubSpec::simple(1, 1, 0, 13)),
            Step::Publish(PubSpec::simple(2, 1, 0, 14)),
            Step::Publish(PubSpec::simple(1, 1, 0, 15)),
            Step::Publish(PubSpec::simple(1, 1, 0, 16)),
            Step::Publish(PubSpec::simple(1, 1, 0, 17)),
            Step::Publish(PubSpec::simple(1, 1, 0, 18)),
            Step::Publish(PubSpec::simple(1, 1, 0, 19)),
            Step::SetBroker(BrokerMode::AutoAck),
            Step::PollIdle { max: 60 },
    ]
}

pub fn strategy() -> BoxedStrategy<Case> {
    let p = prefix_profile();
    (cgen::case(&p), 0u8..10, 0u8..10, 0u8..10, 0u8..10)
        .prop_map(|(mut case, k, same, burst, nolimits)| {
            if burst < 2 {
                // an extra healthy connection on which the broker first completes what it has in
                // flight and then fills the client's inbound QoS 2 window (no PUBREL yet)
                let mut steps = vec![Step::SetBroker(BrokerMode::AutoAck), Step::PollIdle { max: 60 }, Step::SetBroker(BrokerMode::Scripted)];
                for i in 0..8u8 {
                    steps.push(Step::Broker(BrokerAct::Deliver { qos: 2, retain: false, topic: TopicSpec::new(2, i), payload: PayloadSpec::new(1, i), props: vec![], redeliver: None }));
                    steps.push(Step::PollIdle { max: 6 });
                }
                let mut extra = final_script(&case.conns[0].connect, true);
                extra.steps = steps;
                case.conns.push(extra);
            }
            // the connection counts as "not lost" only if nothing in its script ends it or leaves
            // a fault armed on the transport
            let last_ok = case.conns.last().is_some_and(|c| {
                c.connect.handshake == Handshake::Accept
                    && !c.steps.iter().any(|s| matches!(s, Step::Eof | Step::FaultAt { .. } | Step::Disconnect { .. } | Step::Broker(BrokerAct::Disconnect { .. })))
            });
            // an application that lets time pass without polling can lose the connection to the
            // keep-alive (PINGRESP not read in time): then the continuation needs a reconnect
            let last_ok = last_ok && !(case.cfg.keepalive > 0 && case.conns.last().is_some_and(|c| c.steps.iter().any(|s| matches!(s, Step::Advance { .. }))));
            if same < 3 && last_ok {
                // the connection was not lost: the benign continuation happens on it
                let last = case.conns.last_mut().unwrap();
                last.steps.push(Step::SetIo(IoCfg::default()));
                last.steps.extend(final_steps());
                last.end = EndHow::Drop;
            } else {
                // mostly the broker still has the session; sometimes it answers with a fresh one
                let mut fin = final_script(&case.conns[0].connect, k < 7);
                if nolimits < 5 {
                    // the broker announces no limits this time: nothing learned earlier may stick
                    fin.connect.props = ConnackProps::default();
                }
                case.conns.push(fin);
            }
            case
        })
        .boxed()
}

pub struct Out {
    pub violations: Vec<Violation>,
    pub stats: Stats,
    pub c12_nontrivial: bool,
    pub c16_nontrivial: bool,
    pub watchdog: bool,
    pub classes: Vec<&'static str>,
}

/// Smallest transmit arena with which a brand-new session of this configuration (and build)
/// connects: the free space connect() needs.
fn connect_need(case: &Case) -> Option<usize> {
    let fin = case.conns.last()?;
    for tx in 16..160usize {
        let c = Case {
            cfg: Cfg { tx, ..case.cfg.clone() },
            broker: BrokerMode::Scripted,
            conns: vec![ConnScript { connect: ConnectSpec { handshake: Handshake::Accept, io: IoCfg::default(), ..fin.connect.clone() }, steps: vec![], end: EndHow::Drop }],
        };
        let t = run_case(&c);
        if t.conns.first().is_some_and(|x| x.1.is_ok()) {
            return Some(tx);
        }
    }
    None
}

fn twin_of(case: &Case) -> Case {
    let mut fin = final_script(&case.conns[0].connect, true);
    fin.connect.props = case.conns.last().unwrap().connect.props.clone();
    fin.connect.props.server_keepalive = None;
    fin.connect.props.assigned_id = None;
    Case { cfg: case.cfg.clone(), broker: BrokerMode::Scripted, conns: vec![fin] }
}

/// (connection index, index of the first continuation step) - the marker is the SetBroker step
/// followed by the long drain.
fn continuation_at(case: &Case) -> (usize, usize) {
    for (ci, cs) in case.conns.iter().enumerate().rev() {
        for si in 0..cs.steps.len().saturating_sub(1) {
            if cs.steps[si] == Step::SetBroker(BrokerMode::AutoAck) && cs.steps[si + 1] == (Step::PollIdle { max: DRAIN_MAX }) {
                return (ci, si);
            }
        }
    }
    (case.conns.len() - 1, 0)
}

fn probe_results(trace: &Trace, conn_idx: usize, step0: usize) -> Vec<(OpKind, OpRes)> {
    trace
        .ops
        .iter()
        .filter(|o| o.step.0 == conn_idx && o.step.1 >= step0 + 2 && !matches!(o.kind, OpKind::Poll))
        .map(|o| {
            let r = match &o.res {
                OpRes::Handle(_) => OpRes::Handle(0),
                other => other.clone(),
            };
            (o.kind, r)
        })
        .collect()
}

pub fn eval(case: &Case) -> Out {
    let trace = run_case(case);
    let view = View::build(&trace);
    let (model_viol, stats) = Model::run(case, &view);
    let mut v: Vec<Violation> = Vec::new();
    let mut classes: Vec<&'static str> = Vec::new();
    let (fin_idx, fin_step0) = continuation_at(case);
    let same_conn = fin_step0 > 0;
    let fin_tr = trace.conns.len().checked_sub(1);
    let push = |v: &mut Vec<Violation>, prop: &'static str, sig: String, detail: String| {
        if !v.iter().any(|x| x.prop == prop && x.sig == sig) {
            v.push(Violation { prop, sig, detail });
        }
    };
    if let Some(p) = &trace.panic {
        v.push(Violation { prop: "PANIC", sig: format!("panic/{}", p.rsplit(" @ ").next().unwrap_or("")), detail: p.clone() });
    }
    if trace.watchdog {
        push(&mut v, "C16", "C16/livelock".into(), "the count-based watchdog stopped the case: an operation kept polling the transport without end".into());
    }
    // poll() returns without a message only after real wire progress (anywhere in the history)
    for (i, o) in trace.ops.iter().enumerate() {
        if o.kind == OpKind::Poll && o.res == OpRes::Ok && o.io_calls.0 == o.io_calls.1 {
            push(&mut v, "C16", "C16/poll-returned-without-wire-progress".into(), format!("op {i}: poll() returned Ok(None) without completing a single read, write or flush"));
        }
    }
    // unbounded / repeated transmission rules of the history model
    for m in &model_viol {
        if m.sig.contains("retransmitted-within-connection") || m.sig.contains("pubrel-twice-on-connection") {
            push(&mut v, "C16", format!("C16/same-packet-sent-twice-on-one-connection/{}", m.sig.rsplit('/').next().unwrap_or("")), m.detail.clone());
        }
    }
    let (Some(fin_tr), true) = (fin_tr, trace.conns.len() == case.conns.len()) else {
        return Out { violations: v, stats, c12_nontrivial: false, c16_nontrivial: false, watchdog: trace.watchdog, classes };
    };
    let fin_res = trace.conns[fin_tr].1;
    if same_conn {
        classes.push("continuation-on-the-same-connection");
        // only meaningful when the connection is still alive when the continuation starts
        let alive = fin_res.is_ok() && {
            let first_op = trace.ops.iter().position(|o| o.step.0 == fin_idx && o.step.1 >= fin_step0);
            let mut last = None;
            for e in &trace.events {
                match e {
                    Event::Sample(s) => last = s.connected,
                    Event::OpStart { op, .. } if Some(*op) == first_op => break,
                    _ => {}
                }
            }
            last == Some(true)
        };
        if !alive {
            return Out { violations: v, stats, c12_nontrivial: false, c16_nontrivial: false, watchdog: trace.watchdog, classes };
        }
    }
    // differential twin: a brand-new session with the same configuration and the same CONNACK
    let mut twin_case = twin_of(case);
    // the same CONNACK: a planned smaller Maximum Packet Size may have been withheld
    twin_case.conns[0].connect.props.max_packet = trace.announced_max_packet(fin_tr);
    let twin = run_case(&twin_case);
    let twin_ok = twin.conns.first().is_some_and(|c| c.1.is_ok());
    if !twin_ok {
        classes.push("configuration-can-never-connect");
        return Out { violations: v, stats, c12_nontrivial: false, c16_nontrivial: false, watchdog: trace.watchdog, classes };
    }
    let inflight_before = if same_conn { Some(8) } else { stats.inflight_at_conn.iter().find(|x| x.0 == fin_tr).map(|x| x.1 + x.2) };
    // what ended the previous connection
    let prev_failed = !same_conn && fin_tr > 0 && {
        let prev = fin_tr - 1;
        !trace.conns[prev].1.is_ok()
            || trace.ops.iter().any(|o| o.tr == prev && matches!(o.res, OpRes::Err(ErrKind::Transport | ErrKind::Disconnected | ErrKind::InvalidPacket) | OpRes::Cancelled { .. }))
            || matches!(case.conns[fin_idx - 1].end, EndHow::Forget)
    };
    if !fin_res.is_ok() {
        // discriminate the known arena-space defect: BufferTooSmall from connect() means the CONNECT
        // did not fit behind the retained packets (a brand-new session fits it); if nothing is
        // retained the cause must be something else (e.g. leaked arena space)
        let quiescent_before = trace
            .events
            .iter()
            .rev()
            .find_map(|e| if let Event::Sample(s) = e { Some(s.quiescent) } else { None })
            .unwrap_or(true);
        let kind = match fin_res {
            ConnRes::Err(e) => format!("{e:?}"),
            other => format!("{other:?}"),
        };
        // the known defect is "the CONNECT does not fit behind the retained packets"; if it does
        // fit (retained bytes known exactly from the wire, space a CONNECT needs measured on a
        // brand-new session of the same build) the failure is something else
        let fits_anyway = fin_res == ConnRes::Err(ErrKind::BufferTooSmall)
            && !quiescent_before
            && stats.retained_at_conn_start.iter().rev().find(|x| x.0 == fin_tr).is_some_and(|(_, bytes, certain)| {
                *certain && connect_need(case).is_some_and(|need| case.cfg.tx >= bytes + need)
            });
        let sig_tail = if fits_anyway {
            "BufferTooSmall,although-the-connect-fits-behind-the-retained-packets".to_string()
        } else if fin_res == ConnRes::Err(ErrKind::BufferTooSmall) && !quiescent_before {
            "BufferTooSmall,retained-packets-leave-no-room-for-connect".to_string()
        } else if fin_res == ConnRes::Err(ErrKind::BufferTooSmall) {
            "BufferTooSmall,although-nothing-is-retained".to_string()
        } else {
            kind
        };
        let detail = format!("after the generated history, connect() over a healthy transport to a conformant broker returned {fin_res:?} (a brand-new session with the same configuration connects)");
        push(&mut v, "C12", format!("C12/reconnect-failed/{sig_tail}"), detail.clone());
        push(&mut v, "C16", format!("C16/reconnect-failed/{sig_tail}"), detail);
        return Out { violations: v, stats, c12_nontrivial: prev_failed, c16_nontrivial: false, watchdog: trace.watchdog, classes };
    }
    // ---- C12: the new transport starts with one complete CONNECT and parses cleanly
    let tv = &view.trs[fin_tr];
    let first_is_connect = tv.pkts.first().is_some_and(|p| matches!(view.out[*p].packet, Packet::Connect(_)));
    if !same_conn && (!first_is_connect || tv.fatal.is_some()) {
        push(&mut v, "C12", "C12/new-transport-not-clean".into(), format!("the new transport's byte stream does not start with a complete CONNECT / does not parse: {:?}", tv.fatal));
    }
    if !same_conn {
        for m in &model_viol {
            // anything the history model objects to on the final transport concerns usability
            if m.detail.contains(&format!("transport {fin_tr}")) && matches!(m.prop, "C01" | "C04" | "C05") && !m.sig.contains("fixed-header-flags") {
                push(&mut v, "C12", format!("C12/final-connection/{}", m.sig), m.detail.clone());
            }
        }
    }
    // usability probe: identical results to a brand-new session
    let mine = probe_results(&trace, fin_idx, fin_step0);
    let theirs = probe_results(&twin, 0, 0);
    if mine != theirs {
        let prop = if same_conn { "C16" } else { "C12" };
        push(&mut v, prop, format!("{prop}/session-not-fully-usable"), format!("after draining, the probe (inbound QoS 1 delivery, QoS 1 publish, subscribe, full send window) gave {mine:?}; a brand-new session gives {theirs:?}"));
    }
    // ---- C16: bounded progress to quiescence
    let drain_polls = trace.ops.iter().filter(|o| o.step == (fin_idx, fin_step0 + 1)).count();
    let drain_blocked = trace.ops.iter().filter(|o| o.step == (fin_idx, fin_step0 + 1)).last().is_some_and(|o| matches!(o.res, OpRes::Blocked { .. }));
    let n = inflight_before.unwrap_or(0) as usize;
    let bound = 4 * (n + 8) + 10;
    if !drain_blocked {
        let last = trace.ops.iter().filter(|o| o.step == (fin_idx, fin_step0 + 1)).last().map(|o| o.res.clone());
        push(&mut v, "C16", "C16/not-idle-within-bound".into(), format!("{drain_polls} poll() calls with a responsive broker did not bring the session to an idle wait (last result {last:?})"));
    } else if drain_polls > bound {
        push(&mut v, "C16", "C16/too-many-steps".into(), format!("{drain_polls} poll() calls were needed for {n} pending items (bound {bound})"));
    }
    let last_sample = trace.events.iter().rev().find_map(|e| if let Event::Sample(s) = e { Some(s.clone()) } else { None });
    if let Some(s) = &last_sample {
        if !s.quiescent {
            push(&mut v, "C16", "C16/not-quiescent-at-the-end".into(), "is_publish_quiescent() is false after everything was acknowledged and drained".into());
        }
        if s.handles.iter().any(|h| matches!(h, HStatus::Pending | HStatus::Inconsistent(_))) {
            push(&mut v, "C16", "C16/operation-still-pending".into(), format!("handles at the end: {:?}", s.handles));
        }
    }
    for m in &model_viol {
        if m.sig.starts_with("C04/ack-not-sent") || m.sig.contains("not-replayed-on-resume") {
            if m.detail.contains(&format!("transport {fin_tr}")) {
                push(&mut v, "C16", format!("C16/owed-packet-not-sent/{}", m.sig.rsplit('/').next().unwrap_or("")), m.detail.clone());
            }
        }
    }
    let byte_bound = case.cfg.tx + 64 + 16 * 8 * 3 + 400;
    if trace.out[fin_tr].len() > byte_bound {
        push(&mut v, "C16", "C16/too-many-bytes".into(), format!("{} bytes written on the final connection, bound {byte_bound}", trace.out[fin_tr].len()));
    }
    if n >= 2 {
        classes.push("continuation-starts-with-2+-pending");
    }
    if prev_failed {
        classes.push("previous-connection-ended-in-failure-or-cancel");
    }
    if fin_res == ConnRes::Reconnected {
        classes.push("final-connection-resumed");
    }
    Out { violations: v, stats, c12_nontrivial: prev_failed && n >= 1, c16_nontrivial: n >= 2 && prev_failed, watchdog: trace.watchdog, classes }
}

pub fn run(ctx: &Ctx) -> i32 {
    let cases = ctx.tier.pick(160_000, 5_000_000);
    let is12 = ctx.prop == "C12";
    let agg = run_prop(ctx, "case-tail", 16, cases, strategy, |case: &Case| {
        let o = eval(case);
        Eval { nontrivial: if is12 { o.c12_nontrivial } else { o.c16_nontrivial }, violations: o.violations, classes: o.classes, watchdog: o.watchdog && is12 }
    });
    let rule = if is12 {
        "arbitrary prefix history (C01 generator plus 25% failed handshakes of every kind, leaked handles, receive buffers 5..256, transmit arenas 32..2048, payloads up to arena-filling) followed by connect() over a healthy transport to a conformant broker. Oracle: connect() succeeds whenever a brand-new session with the same configuration and CONNACK can (differential twin), the new transport's bytes start with one complete CONNECT and parse cleanly, the history model has no objection on that connection, and after draining a usability probe (inbound QoS 1 delivery + ack, QoS 1 publish + PUBACK, subscribe + SUBACK) gives exactly the results a brand-new session gives. Non-trivial = the previous connection ended in a failure / cancellation / leaked handle with something still in flight or owed; distinct = distinct case value."
    } else {
        "arbitrary prefix history as in C12, followed by the benign continuation: reconnect (session present if the broker still has it), broker acknowledges everything at once, application calls poll() until it blocks (at most 120 times). Oracle: the wait becomes idle within 4*(pending+8)+10 polls and arena+const bytes, the session is publish-quiescent, no handle is pending, no owed acknowledgement or replay is missing, poll() never returned Ok(None) without a completed I/O call anywhere in the history, no packet was completely transmitted twice on one connection, and the count-based watchdog (5 million transport polls, 40 million clock reads per case) never fired. Unbounded liveness is out of reach for testing; this bounded form is what is decided. Non-trivial = continuation starts with >= 2 items in flight or owed after a failure / cancellation; distinct = distinct case value."
    };
    finish(
        ctx,
        agg,
        Report {
            level: "exploration",
            rule: rule.into(),
            assumptions: vec![
                "conformant broker whose CONNACK respects the client's Maximum Packet Size".into(),
                "the broker's limits are the same on every connection of a case".into(),
            ],
        },
    )
}

pub fn replay(case: &Case) -> Vec<Violation> {
    eval(case).violations
}
