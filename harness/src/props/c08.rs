//! C08 — any inbound bytes: valid packets accepted verbatim, malformed rejected, no panic.
//!
//! A three-valued classifier built on the independent reference decoder decides what the
//! specification says about one inbound packet (VALID / MALFORMED / UNSPECIFIED). The packet is fed
//! to a session that has one in-flight operation of every kind, so that every acknowledgement has
//! an observable target, or as the very first packet (instead of CONNACK).

use crate::model::Violation;
use crate::refcodec::{self as rc, Ack, Anomaly, DecodeError, Fatal, Packet, Prop, SubOpts};
use crate::runner::*;
use crate::scenario::*;
use crate::trace::*;
use crate::view::View;
use crate::world::run_case;
use proptest::prelude::*;
use serde::{Deserialize, Serialize};
use std::sync::OnceLock;

pub const RX: usize = 256;

#[derive(Clone, Copy, Debug, PartialEq, Eq, Hash, Serialize, Deserialize)]
pub enum St {
    BeforeConnack,
    AfterConnack,
}

#[derive(Clone, Debug, PartialEq, Eq, Hash, Serialize, Deserialize)]
pub struct Input {
    pub state: St,
    pub bytes: Vec<u8>,
    pub read_chunks: Vec<u16>,
    pub probe: u8,
}

#[derive(Clone, Debug, PartialEq)]
pub enum Class {
    Valid(Packet),
    Malformed(&'static str),
    Unspecified(&'static str),
    /// fewer bytes than the fixed header announces (the client must keep waiting)
    Incomplete,
}

fn reason_legal(ptype: u8, r: u8) -> bool {
    let set: &[u8] = match ptype {
        2 => &[0x00, 0x80, 0x81, 0x82, 0x83, 0x84, 0x85, 0x86, 0x87, 0x88, 0x89, 0x8A, 0x8C, 0x90, 0x95, 0x97, 0x99, 0x9A, 0x9B, 0x9C, 0x9D, 0x9F],
        4 | 5 => &[0x00, 0x10, 0x80, 0x83, 0x87, 0x90, 0x91, 0x97, 0x99],
        6 | 7 => &[0x00, 0x92],
        9 => &[0x00, 0x01, 0x02, 0x80, 0x83, 0x87, 0x8F, 0x91, 0x97, 0x9E, 0xA1, 0xA2],
        11 => &[0x00, 0x11, 0x80, 0x83, 0x87, 0x8F, 0x91],
        14 => &[
            0x00, 0x80, 0x81, 0x82, 0x83, 0x87, 0x89, 0x8B, 0x8D, 0x8E, 0x90, 0x93, 0x94, 0x95, 0x96, 0x97, 0x98, 0x99, 0x9A, 0x9B,
            0x9C, 0x9D, 0x9E, 0xA0, 0xA1, 0xA2,
        ],
        _ => &[],
    };
    set.contains(&r)
}

/// What MQTT 5 (and the listed malformed kinds of the property) say about the packet at the front
/// of `bytes`, for a client with an `rx`-byte receive buffer that never asked for enhanced
/// authentication or topic aliases.
pub fn classify(bytes: &[u8], rx: usize) -> Class {
    if bytes.is_empty() {
        return Class::Incomplete;
    }
    let ptype = bytes[0] >> 4;
    // the fixed header alone decides size and varint form; a client may wait for the announced
    // number of bytes before it judges the packet, so a short input is merely incomplete
    let mut rl: u32 = 0;
    let mut n = 0usize;
    let mut terminated = false;
    for i in 0..4 {
        let Some(&x) = bytes.get(1 + i) else { return Class::Incomplete };
        rl |= ((x & 0x7F) as u32) << (7 * i);
        n = i + 1;
        if x & 0x80 == 0 {
            terminated = true;
            break;
        }
    }
    if !terminated {
        return Class::Malformed("remaining-length-varint");
    }
    let total = 1 + n + rl as usize;
    if total > rx {
        return Class::Malformed("larger-than-receive-buffer");
    }
    if bytes.len() < total {
        return Class::Incomplete;
    }
    if rc::get_varint(&bytes[1..]).is_err() {
        return Class::Malformed("remaining-length-varint");
    }
    if matches!(ptype, 0 | 1 | 8 | 10 | 12) {
        return Class::Malformed("reserved-or-client-only-type");
    }
    if ptype == 15 {
        return Class::Unspecified("AUTH without enhanced authentication");
    }
    if ptype != 3 {
        let want = if ptype == 6 { 2 } else { 0 };
        if bytes[0] & 0x0F != want {
            return Class::Malformed("illegal-flags");
        }
    } else if (bytes[0] >> 1) & 3 == 3 {
        return Class::Malformed("qos3");
    }
    let d = match rc::decode(bytes) {
        Ok(d) => d,
        Err(DecodeError::NeedMore(_)) => return Class::Incomplete,
        Err(DecodeError::Fatal(f)) => {
            return match f {
                Fatal::BadVarint(_) => Class::Malformed("varint"),
                Fatal::Overrun(_) => Class::Malformed("field-past-packet"),
                Fatal::Trailing(_) => Class::Malformed("trailing-bytes"),
                Fatal::UnknownProperty(_) => Class::Unspecified("unknown property identifier"),
                Fatal::InProps(inner) => {
                    // the block is delimited correctly; its contents are decoded lazily by the
                    // client except in CONNACK, where every property is interpreted
                    let connack_success = ptype == 2 && bytes.get(1 + n + 1) == Some(&0);
                    if connack_success && matches!(*inner, Fatal::BadVarint(_) | Fatal::Overrun(_)) {
                        Class::Malformed("connack-property-contents")
                    } else {
                        Class::Unspecified("broken property contents (decoded lazily)")
                    }
                }
            };
        }
    };
    for a in &d.anomalies {
        match a {
            Anomaly::InvalidUtf8("topic") => return Class::Malformed("invalid-utf8-topic"),
            Anomaly::Qos3 => return Class::Malformed("qos3"),
            Anomaly::Flags { .. } => return Class::Malformed("illegal-flags"),
            _ => {}
        }
    }
    if !d.anomalies.is_empty() {
        return Class::Unspecified("violates the specification in a way the property does not list");
    }
    // spec-valid so far; exclude what this client never enabled and illegal reason codes
    let props: Vec<&Prop> = match &d.packet {
        Packet::ConnAck { props, .. } | Packet::SubAck { props, .. } | Packet::UnsubAck { props, .. } => props.iter().collect(),
        Packet::Publish(p) => p.props.iter().collect(),
        Packet::PubAck(a) | Packet::PubRec(a) | Packet::PubRel(a) | Packet::PubComp(a) => a.props.iter().flatten().collect(),
        Packet::Disconnect { props, .. } => props.iter().flatten().collect(),
        _ => vec![],
    };
    if props.iter().any(|p| matches!(p, Prop::TopicAlias(_) | Prop::AuthMethod(_) | Prop::AuthData(_))) {
        return Class::Unspecified("topic alias / enhanced authentication never requested");
    }
    let ok = match &d.packet {
        Packet::ConnAck { reason, session_present, props } => {
            reason_legal(2, *reason)
                && !(*session_present && *reason != 0)
                && !props.iter().any(|p| matches!(p, Prop::MaximumQoS(2)))
                && props.iter().all(|p| match p {
                    Prop::AssignedClientId(s) => s.len() <= 64,
                    _ => true,
                })
        }
        Packet::PubAck(a) | Packet::PubRec(a) => reason_legal(4, a.code()),
        Packet::PubRel(a) | Packet::PubComp(a) => reason_legal(6, a.code()),
        Packet::SubAck { codes, .. } => codes.iter().all(|c| reason_legal(9, *c)),
        Packet::UnsubAck { codes, .. } => codes.iter().all(|c| reason_legal(11, *c)),
        Packet::Disconnect { reason, props } => {
            reason_legal(14, reason.unwrap_or(0)) && !props.iter().flatten().any(|p| matches!(p, Prop::SessionExpiry(_)))
        }
        Packet::Publish(p) => !p.topic.contains('\0'),
        _ => true,
    };
    if !ok {
        return Class::Unspecified("reason code / value outside the specification");
    }
    Class::Valid(d.packet)
}

// ------------------------------------------------------------------------------------------------
// the prepared session
// ------------------------------------------------------------------------------------------------

#[derive(Clone, Copy, Debug)]
pub struct Ids {
    pub a: u16,
    pub b: u16,
    pub c: u16,
    pub d: u16,
    pub e: u16,
    pub p: u16,
    pub local_window: u32,
}

fn prelude() -> Vec<Step> {
    let so = SubOpts { qos: 1, no_local: false, rap: false, retain_handling: 0 };
    vec![
        Step::Publish(PubSpec::simple(1, 3, 4, 1)),
        Step::Publish(PubSpec::simple(2, 3, 4, 2)),
        Step::Publish(PubSpec::simple(2, 3, 4, 3)),
        // PUBREC for the second QoS 2 publish (third outstanding entry)
        Step::Broker(BrokerAct::Ack { which: 50_000, reason: 0, form: AckForm::Short }),
        Step::PollIdle { max: 4 },
        Step::Subscribe { filters: vec![(TopicSpec::new(3, 4), so), (TopicSpec::new(3, 8), so)], props: vec![], cancel: None },
        Step::Unsubscribe { filters: vec![TopicSpec::new(3, 12)], props: vec![], cancel: None },
        Step::Broker(BrokerAct::Deliver { qos: 2, retain: false, topic: TopicSpec::new(2, 1), payload: PayloadSpec::new(2, 1), props: vec![], redeliver: None }),
        Step::PollIdle { max: 4 },
    ]
}

const PRELUDE_HANDLES: usize = 5;

fn base_cfg() -> Cfg {
    Cfg { rx: RX, tx: 2048, ..Cfg::default() }
}

pub fn ids() -> &'static Ids {
    static IDS: OnceLock<Ids> = OnceLock::new();
    IDS.get_or_init(|| {
        let case = Case {
            cfg: base_cfg(),
            broker: BrokerMode::Scripted,
            conns: vec![ConnScript { connect: ConnectSpec::default(), steps: prelude(), end: EndHow::Drop }],
        };
        let t = run_case(&case);
        let v = View::build(&t);
        let mut pubs = Vec::new();
        let (mut d, mut e, mut p) = (0, 0, 0);
        for o in &v.out {
            match &o.packet {
                Packet::Publish(pb) if pb.qos > 0 => pubs.push(pb.pid.unwrap()),
                Packet::Subscribe { pid, .. } => d = *pid,
                Packet::Unsubscribe { pid, .. } => e = *pid,
                Packet::PubRec(a) => p = a.pid,
                _ => {}
            }
        }
        assert_eq!(pubs.len(), 3, "prelude did not produce three publishes");
        // local window: how many QoS 1 publishes a fresh session accepts without Receive Maximum
        let probe = Case {
            cfg: base_cfg(),
            broker: BrokerMode::Scripted,
            conns: vec![ConnScript {
                connect: ConnectSpec::default(),
                steps: (0..40).map(|i| Step::Publish(PubSpec::simple(1, 1, 0, i))).collect(),
                end: EndHow::Drop,
            }],
        };
        let t2 = run_case(&probe);
        let local_window = t2.ops.iter().take_while(|o| matches!(o.res, OpRes::Handle(_))).count() as u32;
        Ids { a: pubs[0], b: pubs[1], c: pubs[2], d, e, p, local_window }
    })
}

pub fn case_of(inp: &Input) -> Case {
    let io = IoCfg { read_chunks: inp.read_chunks.clone(), write_chunks: vec![], pend_first: false, read_cuts: vec![] };
    match inp.state {
        St::AfterConnack => {
            let mut steps = prelude();
            steps.push(Step::Broker(BrokerAct::Raw(inp.bytes.clone())));
            steps.push(Step::PollIdle { max: 3 });
            Case {
                cfg: base_cfg(),
                broker: BrokerMode::Scripted,
                conns: vec![ConnScript { connect: ConnectSpec { io, ..ConnectSpec::default() }, steps, end: EndHow::Drop }],
            }
        }
        St::BeforeConnack => {
            let mut steps: Vec<Step> = Vec::new();
            match inp.probe % 3 {
                0 => steps.extend((0..12).map(|i| Step::Publish(PubSpec::simple(1, 1, 0, i)))),
                1 => {
                    if let Class::Valid(Packet::ConnAck { props, .. }) = classify(&inp.bytes, RX) {
                        if let Some(m) = props.iter().find_map(|p| if let Prop::MaximumPacketSize(m) = p { Some(*m) } else { None }) {
                            if (8..=200).contains(&m) {
                                steps.push(super::c14::fit(super::c14::Kind::Pub(0), m, 1));
                                steps.push(super::c14::fit(super::c14::Kind::Pub(0), m + 1, 2));
                            }
                        }
                    }
                }
                _ => steps.push(Step::Publish(PubSpec::simple(2, 1, 1, 5))),
            }
            Case {
                cfg: Cfg { downgrade: true, ..base_cfg() },
                broker: BrokerMode::Scripted,
                conns: vec![ConnScript {
                    connect: ConnectSpec { handshake: Handshake::Garbage(inp.bytes.clone()), io, ..ConnectSpec::default() },
                    steps,
                    end: EndHow::Drop,
                }],
            }
        }
    }
}

pub struct Out {
    pub violations: Vec<Violation>,
    pub label: String,
    pub judged: bool,
}

fn bad(v: &mut Vec<Violation>, sig: String, detail: String) {
    if !v.iter().any(|x| x.sig == sig) {
        v.push(Violation { prop: "C08", sig, detail });
    }
}

fn hex(b: &[u8]) -> String {
    let mut s = String::new();
    for x in b.iter().take(48) {
        s.push_str(&format!("{x:02x}"));
    }
    if b.len() > 48 {
        s.push('…');
    }
    s
}

pub fn eval(inp: &Input) -> Out {
    let ids = *ids();
    let class = classify(&inp.bytes, RX);
    let case = case_of(inp);
    let trace = run_case(&case);
    let view = View::build(&trace);
    let mut v: Vec<Violation> = Vec::new();
    if let Some(p) = &trace.panic {
        let loc = p.rsplit(" @ ").next().unwrap_or("").to_string();
        v.push(Violation { prop: "PANIC", sig: format!("panic/{loc}"), detail: format!("{p} on inbound bytes {}", hex(&inp.bytes)) });
    }
    let label = match &class {
        Class::Valid(p) => format!("valid/{}", p.type_name()),
        Class::Malformed(k) => format!("malformed/{k}"),
        Class::Unspecified(_) => "unspecified".to_string(),
        Class::Incomplete => "incomplete".to_string(),
    };
    let mut judged = false;
    match inp.state {
        St::BeforeConnack => {
            let res = trace.conns.first().map(|c| c.1);
            match &class {
                Class::Malformed(k) => {
                    judged = true;
                    if res != Some(ConnRes::Err(ErrKind::InvalidPacket)) {
                        bad(&mut v, format!("C08/malformed-accepted/before-connack/{k}"), format!("malformed ({k}) first packet {}: connect() returned {res:?}, expected InvalidPacket", hex(&inp.bytes)));
                    }
                    // "never partially acted upon": the same bytes as the answer to the CONNECT of a
                    // session that has operations in flight must leave their handles untouched
                    if inp.bytes.first() == Some(&0x20) {
                        let io2 = IoCfg { read_chunks: inp.read_chunks.clone(), write_chunks: vec![], pend_first: false, read_cuts: vec![] };
                        let case2 = Case {
                            cfg: base_cfg(),
                            broker: BrokerMode::Scripted,
                            conns: vec![
                                ConnScript { connect: ConnectSpec::default(), steps: prelude(), end: EndHow::Drop },
                                ConnScript { connect: ConnectSpec { handshake: Handshake::Garbage(inp.bytes.clone()), io: io2, ..ConnectSpec::default() }, steps: vec![], end: EndHow::Drop },
                            ],
                        };
                        let t2 = run_case(&case2);
                        let mut before: Option<Vec<HStatus>> = None;
                        let mut after: Option<Vec<HStatus>> = None;
                        let mut second = false;
                        for e in &t2.events {
                            match e {
                                Event::ConnStart { tr: 1, .. } => second = true,
                                Event::Sample(smp) if !second => before = Some(smp.handles.clone()),
                                Event::Sample(smp) => after = Some(smp.handles.clone()),
                                _ => {}
                            }
                        }
                        if let (Some(b), Some(a)) = (before, after) {
                            if b.len() == PRELUDE_HANDLES && a != b && t2.conns.get(1).is_some_and(|c| !c.1.is_ok()) {
                                bad(&mut v, format!("C08/malformed-connack-acted-upon/{k}"), format!("malformed ({k}) CONNACK {} answering the CONNECT of a session with operations in flight: connect() failed but the handles changed from {b:?} to {a:?}", hex(&inp.bytes)));
                            }
                        }
                    }
                }
                Class::Valid(Packet::ConnAck { session_present: false, reason, props }) => {
                    judged = true;
                    let want = if *reason == 0 { ConnRes::Connected } else { ConnRes::Err(ErrKind::Rejected(*reason)) };
                    if res != Some(want) {
                        bad(&mut v, format!("C08/valid-connack-mishandled/reason={}", if *reason == 0 { "success" } else { "failure" }), format!("valid CONNACK {}: connect() returned {res:?}, expected {want:?}", hex(&inp.bytes)));
                    } else if *reason == 0 {
                        connack_probes(&case, &trace, &view, props, inp.probe % 3, ids.local_window, &mut v, &inp.bytes);
                    }
                }
                _ => {}
            }
        }
        St::AfterConnack => {
            // ops after the raw bytes were queued
            let first_poll = trace.ops.iter().position(|o| o.step.1 == prelude().len() + 1);
            let Some(fp) = first_poll else {
                return Out { violations: v, label, judged };
            };
            let first_res = trace.ops[fp].res.clone();
            let deliveries: Vec<&Delivered> = trace
                .events
                .iter()
                .filter_map(|e| if let Event::Delivery { op, msg, .. } = e { if *op >= fp { Some(&trace.deliveries[*msg]) } else { None } } else { None })
                .collect();
            let new_out: Vec<&Packet> = view.out.iter().filter(|o| o.op_last.is_some_and(|op| op >= fp)).map(|o| &o.packet).collect();
            let last = trace.events.iter().rev().find_map(|e| if let Event::Sample(s) = e { if s.connected.is_some() { Some(s.clone()) } else { None } } else { None });
            let before = {
                let mut last = None;
                for e in &trace.events {
                    match e {
                        Event::Sample(s) => last = Some(s.clone()),
                        Event::OpStart { op, .. } if *op == fp => break,
                        _ => {}
                    }
                }
                last
            };
            let (Some(last), Some(before)) = (last, before) else {
                return Out { violations: v, label, judged };
            };
            if before.handles.len() != PRELUDE_HANDLES || before.handles != vec![HStatus::Pending; PRELUDE_HANDLES] {
                // the prepared state is not what this check assumes (would be reported by C18/C03)
                return Out { violations: v, label, judged };
            }
            let mut want_handles = before.handles.clone();
            let mut want_connected = true;
            // None = do not judge the result of the first poll
            let mut want_res: Option<OpRes> = None;
            let mut want_out: Option<Vec<Packet>> = Some(vec![]);
            let mut want_delivery: Option<Option<&rc::Publish>> = Some(None);
            let rej = |code: u8| if code >= 0x80 { OpRes::Err(ErrKind::Rejected(code)) } else { OpRes::Ok };
            match &class {
                Class::Incomplete | Class::Unspecified(_) => {
                    return Out { violations: v, label, judged };
                }
                Class::Malformed(_) => {
                    want_res = Some(OpRes::Err(ErrKind::InvalidPacket));
                    want_connected = false;
                }
                Class::Valid(p) => match p {
                    Packet::Publish(pb) => {
                        if pb.qos == 1 && pb.pid == Some(ids.p) {
                            return Out { violations: v, label, judged };
                        }
                        let dup_pending = pb.qos == 2 && pb.pid == Some(ids.p);
                        if !dup_pending {
                            want_delivery = Some(Some(pb));
                        }
                        want_out = Some(match pb.qos {
                            0 => vec![],
                            1 => vec![Packet::PubAck(Ack::with_reason(pb.pid.unwrap(), 0))],
                            _ => vec![Packet::PubRec(Ack::with_reason(pb.pid.unwrap(), 0))],
                        });
                    }
                    Packet::PubAck(a) => {
                        if a.pid == ids.a {
                            want_handles[0] = HStatus::Complete;
                            want_res = Some(rej(a.code()));
                        } else if [ids.b, ids.c, ids.d, ids.e].contains(&a.pid) {
                            return Out { violations: v, label, judged };
                        } else {
                            want_res = Some(OpRes::Blocked { awaits: 0 });
                        }
                    }
                    Packet::PubRec(a) => {
                        if a.pid == ids.b {
                            if a.code() >= 0x80 {
                                want_handles[1] = HStatus::Complete;
                                want_res = Some(rej(a.code()));
                            } else {
                                want_out = Some(vec![Packet::PubRel(Ack::with_reason(ids.b, 0))]);
                            }
                        } else if [ids.a, ids.c, ids.d, ids.e].contains(&a.pid) {
                            return Out { violations: v, label, judged };
                        } else {
                            want_res = Some(OpRes::Blocked { awaits: 0 });
                        }
                    }
                    Packet::PubComp(a) => {
                        if a.pid == ids.c {
                            want_handles[2] = HStatus::Complete;
                            want_res = Some(rej(a.code()));
                        } else if [ids.a, ids.b, ids.d, ids.e].contains(&a.pid) {
                            return Out { violations: v, label, judged };
                        } else {
                            want_res = Some(OpRes::Blocked { awaits: 0 });
                        }
                    }
                    Packet::PubRel(a) => {
                        let code = if a.pid == ids.p { 0 } else { 0x92 };
                        want_out = Some(vec![Packet::PubComp(Ack::with_reason(a.pid, code))]);
                    }
                    Packet::SubAck { pid, codes, .. } => {
                        if *pid == ids.d {
                            if codes.len() != 2 {
                                return Out { violations: v, label, judged };
                            }
                            want_handles[3] = HStatus::Complete;
                            want_res = Some(rej(codes.iter().copied().find(|c| *c >= 0x80).unwrap_or(0)));
                        } else if [ids.a, ids.b, ids.c, ids.e].contains(pid) {
                            return Out { violations: v, label, judged };
                        } else {
                            want_res = Some(OpRes::Blocked { awaits: 0 });
                        }
                    }
                    Packet::UnsubAck { pid, codes, .. } => {
                        if *pid == ids.e {
                            if codes.len() != 1 {
                                return Out { violations: v, label, judged };
                            }
                            want_handles[4] = HStatus::Complete;
                            want_res = Some(rej(codes[0]));
                        } else if [ids.a, ids.b, ids.c, ids.d].contains(pid) {
                            return Out { violations: v, label, judged };
                        } else {
                            want_res = Some(OpRes::Blocked { awaits: 0 });
                        }
                    }
                    Packet::PingResp => want_res = Some(OpRes::Blocked { awaits: 0 }),
                    Packet::Disconnect { .. } => {
                        want_res = Some(OpRes::Err(ErrKind::Disconnected));
                        want_connected = false;
                    }
                    _ => return Out { violations: v, label, judged },
                },
            }
            judged = true;
            let kind = label.clone();
            let ctx = format!("inbound {} [{}]", hex(&inp.bytes), kind);
            if let Some(w) = &want_res {
                // a packet without effect may end the poll with "internal progress" or be skipped
                let same = match (w, &first_res) {
                    (OpRes::Blocked { .. }, OpRes::Blocked { .. } | OpRes::Ok) => true,
                    (a, b) => a == b,
                };
                if !same {
                    let sig = if matches!(class, Class::Malformed(_)) { format!("C08/malformed-accepted/{kind}") } else { format!("C08/valid-mishandled/result/{kind}") };
                    bad(&mut v, sig, format!("{ctx}: poll returned {first_res:?}, expected {w:?}"));
                }
            }
            if last.connected != Some(want_connected) {
                bad(&mut v, format!("C08/connection-state/{kind}"), format!("{ctx}: is_connected() = {:?}, expected {want_connected}", last.connected));
            }
            if last.handles[..PRELUDE_HANDLES] != want_handles[..] {
                bad(&mut v, format!("C08/handle-effect/{kind}"), format!("{ctx}: handle states {:?}, expected {:?}", &last.handles[..PRELUDE_HANDLES], want_handles));
            }
            if let Some(w) = want_delivery {
                match (w, deliveries.as_slice()) {
                    (None, []) => {}
                    (None, _) => bad(&mut v, format!("C08/unexpected-delivery/{kind}"), format!("{ctx}: {} message(s) delivered, expected none", deliveries.len())),
                    (Some(pb), [d]) => {
                        let props_ok = d.props.iter().all(|p| p.is_ok()) && d.props.iter().filter_map(|p| p.clone().ok()).collect::<Vec<_>>() == pb.props;
                        if d.topic != pb.topic || d.payload != pb.payload || d.qos != pb.qos || d.retain != pb.retain || !props_ok {
                            bad(&mut v, format!("C08/delivery-differs/{kind}"), format!("{ctx}: delivered {d:?}"));
                        }
                    }
                    (Some(_), _) => bad(&mut v, format!("C08/delivery-count/{kind}"), format!("{ctx}: {} deliveries, expected exactly one", deliveries.len())),
                }
            }
            if let Some(w) = want_out {
                let same = w.len() == new_out.len()
                    && w.iter().zip(new_out.iter()).all(|(a, b)| match (a, *b) {
                        (Packet::PubAck(x), Packet::PubAck(y))
                        | (Packet::PubRec(x), Packet::PubRec(y))
                        | (Packet::PubRel(x), Packet::PubRel(y))
                        | (Packet::PubComp(x), Packet::PubComp(y)) => x.pid == y.pid && (x.code() >= 0x80) == (y.code() >= 0x80) && (x.code() < 0x80 || x.code() == y.code()),
                        _ => false,
                    });
                if !same {
                    let sig = if matches!(class, Class::Malformed(_)) { format!("C08/malformed-acted-upon/{kind}") } else { format!("C08/reaction-differs/{kind}") };
                    bad(&mut v, sig, format!("{ctx}: client sent {new_out:?}, expected {w:?}"));
                }
            }
        }
    }
    Out { violations: v, label, judged }
}

fn connack_probes(case: &Case, trace: &Trace, view: &View, props: &[Prop], probe: u8, local_window: u32, v: &mut Vec<Violation>, bytes: &[u8]) {
    if probe != 1 && props.iter().any(|p| matches!(p, Prop::MaximumPacketSize(m) if *m < 16)) {
        return; // the probe publishes themselves would be too large for this broker
    }
    match probe {
        0 => {
            if props.iter().any(|p| matches!(p, Prop::MaximumQoS(0))) {
                return; // QoS 1 probes are downgraded to QoS 0 and do not use the window
            }
            if props.iter().any(|p| matches!(p, Prop::MaximumPacketSize(m) if *m < 16)) {
                return; // the probe publishes themselves would be too large
            }
            let rm = props.iter().find_map(|p| if let Prop::ReceiveMaximum(m) = p { Some(*m as u32) } else { None }).unwrap_or(65535);
            let accepted = trace.ops.iter().take_while(|o| matches!(o.res, OpRes::Handle(_))).count() as u32;
            let want = rm.min(local_window).min(12);
            if accepted != want {
                bad(v, "C08/connack-receive-maximum-not-applied".into(), format!("CONNACK {}: Receive Maximum {rm}, local window {local_window}: {accepted} publishes accepted, expected {want}", hex(bytes)));
            }
        }
        1 => {
            let steps = &case.conns[0].steps;
            let m = props.iter().find_map(|p| if let Prop::MaximumPacketSize(m) = p { Some(*m as usize) } else { None });
            if let (2, Some(m)) = (steps.len(), m) {
                for (i, st) in steps.iter().enumerate() {
                    // not every total length exists (varint boundary): judge by the real length
                    let Some(len) = super::c14::request_len(st) else { continue };
                    let got = trace.ops.get(i).map(|o| o.res.clone());
                    let want = if len > m { OpRes::Err(ErrKind::PacketTooLarge) } else { OpRes::Ok };
                    if got != Some(want.clone()) {
                        bad(v, "C08/connack-maximum-packet-size-not-applied".into(), format!("CONNACK {}: Maximum Packet Size {m}: a QoS 0 publish of {len} bytes returned {got:?}, expected {want:?}", hex(bytes)));
                    }
                }
            }
        }
        _ => {
            let mq = props.iter().find_map(|p| if let Prop::MaximumQoS(m) = p { Some(*m) } else { None });
            let wire: Vec<u8> = view.out.iter().filter_map(|o| if let Packet::Publish(pb) = &o.packet { Some(pb.qos) } else { None }).collect();
            let want = mq.unwrap_or(2).min(2);
            if wire != vec![want] {
                bad(v, "C08/connack-maximum-qos-not-applied".into(), format!("CONNACK {}: Maximum QoS {mq:?} with auto-downgrade: QoS 2 request went out as {wire:?}", hex(bytes)));
            }
        }
    }
}

// ------------------------------------------------------------------------------------------------
// generators
// ------------------------------------------------------------------------------------------------

fn ack_props() -> BoxedStrategy<Option<Vec<Prop>>> {
    prop_oneof![
        2 => Just(None),
        1 => Just(Some(vec![])),
        2 => prop::collection::vec(
            prop_oneof!["[ -~]{0,12}".prop_map(Prop::ReasonString), ("[a-z]{0,4}", "[a-zé]{0,4}").prop_map(|(k, v)| Prop::UserProperty(k, v))],
            1..3
        )
        .prop_map(|v| {
            let mut out: Vec<Prop> = Vec::new();
            for p in v {
                if p.id() == 0x26 || !out.iter().any(|q| q.id() == p.id()) {
                    out.push(p);
                }
            }
            Some(out)
        }),
    ]
    .boxed()
}

fn pid_choice() -> BoxedStrategy<u16> {
    let i = *ids();
    prop_oneof![
        6 => prop::sample::select(vec![i.a, i.b, i.c, i.d, i.e, i.p]),
        2 => 100u16..200,
        1 => Just(65535u16),
    ]
    .boxed()
}

fn ack(ptype: u8) -> BoxedStrategy<Ack> {
    let reasons: Vec<u8> = (0..=255u8).filter(|r| reason_legal(ptype, *r)).collect();
    (pid_choice(), prop_oneof![2 => Just(None), 3 => prop::sample::select(reasons).prop_map(Some)], ack_props())
        .prop_map(|(pid, reason, props)| match reason {
            None => Ack::short(pid),
            Some(r) => Ack { pid, reason: Some(r), props },
        })
        .boxed()
}

pub fn valid_packet() -> BoxedStrategy<Packet> {
    let connack_props = prop::collection::vec(
        prop_oneof![
            any::<u32>().prop_map(Prop::SessionExpiry),
            prop_oneof![1u16..12, 12u16..=u16::MAX].prop_map(Prop::ReceiveMaximum),
            (0u8..2).prop_map(Prop::MaximumQoS),
            (0u8..2).prop_map(Prop::RetainAvailable),
            prop_oneof![8u32..200, 200u32..=u32::MAX].prop_map(Prop::MaximumPacketSize),
            "[a-z0-9]{1,23}".prop_map(Prop::AssignedClientId),
            any::<u16>().prop_map(Prop::TopicAliasMaximum),
            "[ -~]{0,10}".prop_map(Prop::ReasonString),
            ("[a-z]{0,4}", "[a-z]{0,4}").prop_map(|(k, v)| Prop::UserProperty(k, v)),
            (0u8..2).prop_map(Prop::WildcardSubAvailable),
            (0u8..2).prop_map(Prop::SubIdAvailable),
            (0u8..2).prop_map(Prop::SharedSubAvailable),
            any::<u16>().prop_map(Prop::ServerKeepAlive),
            "[a-z/]{0,8}".prop_map(Prop::ResponseInfo),
            "[a-z.]{0,8}".prop_map(Prop::ServerReference),
        ],
        0..5,
    )
    .prop_map(|v| {
        let mut out: Vec<Prop> = Vec::new();
        for p in v {
            if p.id() == 0x26 || !out.iter().any(|q| q.id() == p.id()) {
                out.push(p);
            }
        }
        out
    });
    let connack_reasons: Vec<u8> = (0..=255u8).filter(|r| reason_legal(2, *r)).collect();
    let disc_reasons: Vec<u8> = (0..=255u8).filter(|r| reason_legal(14, *r)).collect();
    let sub_codes: Vec<u8> = (0..=255u8).filter(|r| reason_legal(9, *r)).collect();
    let unsub_codes: Vec<u8> = (0..=255u8).filter(|r| reason_legal(11, *r)).collect();
    let user = prop::collection::vec(("[a-z]{0,3}", "[a-z]{0,3}").prop_map(|(k, v)| Prop::UserProperty(k, v)), 0..2);
    prop_oneof![
        3 => (prop_oneof![3 => Just(0u8), 1 => prop::sample::select(connack_reasons)], connack_props).prop_map(|(reason, props)| Packet::ConnAck {
            session_present: false,
            reason,
            props: if reason == 0 { props } else { props.into_iter().filter(|p| matches!(p, Prop::ReasonString(_) | Prop::UserProperty(_, _) | Prop::ServerReference(_))).collect() },
        }),
        6 => (0u8..3, any::<bool>(), any::<bool>(), 1u32..20, any::<u8>(), 0u32..60, any::<u8>(), crate::cgen::deliver_props(), pid_choice()).prop_map(
            |(qos, retain, dup, tl, tv, pl, ps, props, pid)| Packet::Publish(rc::Publish {
                dup: dup && qos > 0,
                qos,
                retain,
                topic: TopicSpec::new(tl, tv).name(),
                pid: if qos > 0 { Some(pid) } else { None },
                props,
                payload: PayloadSpec::new(pl, ps).bytes(),
            })
        ),
        3 => ack(4).prop_map(Packet::PubAck),
        3 => ack(5).prop_map(Packet::PubRec),
        3 => ack(6).prop_map(Packet::PubRel),
        3 => ack(7).prop_map(Packet::PubComp),
        3 => (pid_choice(), user.clone(), prop::collection::vec(prop::sample::select(sub_codes), 2..=2)).prop_map(|(pid, props, codes)| Packet::SubAck { pid, props, codes }),
        3 => (pid_choice(), user.clone(), prop::collection::vec(prop::sample::select(unsub_codes), 1..=1)).prop_map(|(pid, props, codes)| Packet::UnsubAck { pid, props, codes }),
        1 => Just(Packet::PingResp),
        2 => (prop_oneof![1 => Just(None), 3 => prop::sample::select(disc_reasons).prop_map(Some)], ack_props()).prop_map(|(reason, props)| Packet::Disconnect {
            reason,
            props: if reason.is_some() { props.map(|p| p.into_iter().filter(|q| !matches!(q, Prop::SessionExpiry(_))).collect()) } else { None },
        }),
    ]
    .boxed()
}

#[derive(Clone, Debug)]
enum Mutation {
    None,
    ShrinkRl(u8),
    GrowRl(u8),
    NonCanonicalRl,
    BumpLenPrefix(u8, u8),
    Flags(u8),
    Qos3,
    BadUtf8Topic(u8),
    Type(u8),
    Oversize(u32),
    FlipByte(u16, u8),
    Truncate(u8),
}

fn mutation() -> BoxedStrategy<Mutation> {
    prop_oneof![
        6 => Just(Mutation::None),
        2 => (1u8..4).prop_map(Mutation::ShrinkRl),
        2 => (1u8..4).prop_map(Mutation::GrowRl),
        2 => Just(Mutation::NonCanonicalRl),
        2 => (0u8..4, 1u8..8).prop_map(|(a, b)| Mutation::BumpLenPrefix(a, b)),
        2 => (0u8..16).prop_map(Mutation::Flags),
        1 => Just(Mutation::Qos3),
        2 => any::<u8>().prop_map(Mutation::BadUtf8Topic),
        2 => prop::sample::select(vec![0u8, 1, 8, 10, 12, 15]).prop_map(Mutation::Type),
        2 => prop_oneof![Just(RX as u32 - 1), Just(RX as u32), Just(RX as u32 + 1), Just(100_000u32), Just(268_435_455u32)].prop_map(Mutation::Oversize),
        3 => (any::<u16>(), 1u8..=255).prop_map(|(a, b)| Mutation::FlipByte(a, b)),
        1 => (1u8..6).prop_map(Mutation::Truncate),
    ]
    .boxed()
}

fn apply(m: &Mutation, p: &Packet) -> Vec<u8> {
    let bytes = rc::encode(p);
    let (rl, n) = rc::get_varint(&bytes[1..]).unwrap().unwrap();
    let body = bytes[1 + n..].to_vec();
    let reframe = |first: u8, rl: u32, body: &[u8]| {
        let mut o = vec![first];
        rc::put_varint(&mut o, rl);
        o.extend_from_slice(body);
        o
    };
    match m {
        Mutation::None => bytes,
        Mutation::ShrinkRl(k) => {
            let k = (*k as u32).min(rl);
            // the packet now ends early: cut the byte string at the new end
            reframe(bytes[0], rl - k, &body[..(rl - k) as usize])
        }
        Mutation::GrowRl(k) => {
            let mut b = body.clone();
            b.extend(std::iter::repeat_n(0u8, *k as usize));
            reframe(bytes[0], rl + *k as u32, &b)
        }
        Mutation::NonCanonicalRl => {
            if rl < 128 {
                let mut o = vec![bytes[0], rl as u8 | 0x80, 0x00];
                o.extend_from_slice(&body);
                o
            } else {
                bytes
            }
        }
        Mutation::BumpLenPrefix(which, by) => {
            // the first 16-bit length prefix of the variable header (topic for PUBLISH)
            let mut b = body.clone();
            let off = match p {
                Packet::Publish(_) => 0usize,
                _ => 2 + *which as usize,
            };
            if off + 1 < b.len() {
                let cur = u16::from_be_bytes([b[off], b[off + 1]]);
                let new = cur.wrapping_add(*by as u16 * 37);
                b[off..off + 2].copy_from_slice(&new.to_be_bytes());
            }
            reframe(bytes[0], rl, &b)
        }
        Mutation::Flags(f) => reframe((bytes[0] & 0xF0) | f, rl, &body),
        Mutation::Qos3 => reframe(bytes[0] | 0x06, rl, &body),
        Mutation::BadUtf8Topic(pos) => {
            let mut b = body.clone();
            if let Packet::Publish(pb) = p {
                if !pb.topic.is_empty() {
                    let i = 2 + (*pos as usize % pb.topic.len());
                    b[i] = 0xFF;
                }
            }
            reframe(bytes[0], rl, &b)
        }
        Mutation::Type(t) => reframe((bytes[0] & 0x0F) | (t << 4), rl, &body),
        Mutation::Oversize(total) => {
            // a header that announces `total` bytes; only the beginning ever arrives
            let rl = total.saturating_sub(3).min(268_435_455);
            let mut o = vec![bytes[0]];
            rc::put_varint(&mut o, rl);
            let want = (*total as usize).min(1 + rc::varint_len(rl) + body.len()).min(300);
            o.extend_from_slice(&body[..want.saturating_sub(o.len()).min(body.len())]);
            if (*total as usize) <= RX + 1 {
                o.resize(*total as usize, 0x41);
            }
            o
        }
        Mutation::FlipByte(at, x) => {
            let mut b = bytes.clone();
            let i = crate::world::map_index(*at, b.len());
            b[i] ^= *x;
            b
        }
        Mutation::Truncate(k) => bytes[..bytes.len().saturating_sub(*k as usize).max(1)].to_vec(),
    }
}

pub fn structured() -> BoxedStrategy<Input> {
    (valid_packet(), mutation(), prop_oneof![3 => Just(St::AfterConnack), 1 => Just(St::BeforeConnack)], crate::cgen::chunks(), 0u8..3)
        .prop_map(|(p, m, state, read_chunks, probe)| {
            let mut bytes = apply(&m, &p);
            // a mutation may leave trailing bytes beyond the (new) first packet: keep exactly one packet
            if let Ok(Some((rl, n))) = rc::get_varint(&bytes[1..]) {
                let total = 1 + n + rl as usize;
                if bytes.len() > total {
                    bytes.truncate(total);
                }
            }
            let state = if matches!(p, Packet::ConnAck { .. }) && matches!(m, Mutation::None) { St::BeforeConnack } else { state };
            Input { state, bytes, read_chunks, probe }
        })
        .boxed()
}

/// Every first byte x remaining-length forms x minimal bodies.
pub fn header_forms() -> Vec<Input> {
    let mut out = Vec::new();
    let rl_forms: Vec<Vec<u8>> = vec![
        vec![0x00],
        vec![0x01],
        vec![0x02],
        vec![0x03],
        vec![0x04],
        vec![0x7F],
        vec![0x80, 0x00],
        vec![0x82, 0x00],
        vec![0x80, 0x01],
        vec![0xFF, 0x01],
        vec![0xFF, 0x7F],
        vec![0x80, 0x80, 0x00],
        vec![0x80, 0x80, 0x01],
        vec![0xFF, 0xFF, 0x7F],
        vec![0x80, 0x80, 0x80, 0x00],
        vec![0x80, 0x80, 0x80, 0x01],
        vec![0xFF, 0xFF, 0xFF, 0x7F],
        vec![0x80, 0x80, 0x80, 0x80, 0x00],
        vec![0xFF, 0xFF, 0xFF, 0xFF, 0x7F],
        vec![0x84, 0x80, 0x00],
    ];
    let bodies: Vec<Vec<u8>> = vec![vec![], vec![0, 1], vec![0, 1, 0], vec![0, 1, 0, 0], vec![0, 0, 0], vec![0, 1, 0x61, 0], vec![0xFF; 4], vec![0; 130]];
    for first in 0..=255u8 {
        for rl in &rl_forms {
            for body in &bodies {
                for state in [St::AfterConnack, St::BeforeConnack] {
                    let mut bytes = vec![first];
                    bytes.extend_from_slice(rl);
                    bytes.extend_from_slice(body);
                    out.push(Input { state, bytes, read_chunks: vec![], probe: 0 });
                }
            }
        }
    }
    out
}

fn record_input(ctx: &Ctx, agg: &mut Agg, inp: &Input) {
    let out = eval_any(inp);
    let label: &'static str = intern(&out.label);
    let ev = Eval { violations: out.violations, nontrivial: out.judged, classes: vec![label], watchdog: false };
    agg.record(ctx, "c08-input", inp, ev);
}

fn run_list(ctx: &Ctx, list: Vec<Input>) -> Agg {
    let n = list.len();
    let chunks: Vec<&[Input]> = list.chunks(n.div_ceil(16).max(1)).collect();
    let total = std::sync::Mutex::new(Agg::default());
    std::thread::scope(|sc| {
        for chunk in chunks {
            let total = &total;
            sc.spawn(move || {
                let mut agg = Agg::default();
                for inp in chunk {
                    record_input(ctx, &mut agg, inp);
                }
                total.lock().unwrap().merge(agg);
            });
        }
    });
    total.into_inner().unwrap()
}

/// All byte strings of length 1..=max_len, both states.
fn short_strings(max_len: usize, third_byte_stride: usize) -> Vec<Input> {
    let mut out = Vec::new();
    for state in [St::AfterConnack, St::BeforeConnack] {
        for a in 0..=255u8 {
            out.push(Input { state, bytes: vec![a], read_chunks: vec![], probe: 0 });
            if max_len >= 2 {
                for b in 0..=255u8 {
                    out.push(Input { state, bytes: vec![a, b], read_chunks: vec![], probe: 0 });
                    if max_len >= 3 {
                        for c in (0..=255u8).step_by(third_byte_stride) {
                            out.push(Input { state, bytes: vec![a, b, c], read_chunks: vec![], probe: 0 });
                        }
                    }
                }
            }
        }
    }
    out
}

pub fn run(ctx: &Ctx) -> i32 {
    let _ = ids();
    let mut agg = Agg::default();
    // (i) exhaustive sub-spaces
    let hf = header_forms();
    let n_hf = hf.len();
    agg.merge(run_list(ctx, hf));
    let ss = short_strings(3, ctx.tier.pick(16, 1));
    let n_ss = ss.len();
    agg.merge(run_list(ctx, ss));
    // (ii) structured generation + single-point mutations
    let cases = ctx.tier.pick(400_000, 12_000_000);
    if agg.failure.is_none() {
        agg.merge(run_prop(ctx, "c08-input", 16, cases, structured, |inp: &Input| {
            let out = eval(inp);
            let label: &'static str = intern(&out.label);
            Eval { violations: out.violations, nontrivial: out.judged, classes: vec![label], watchdog: false }
        }));
    }
    // (iii) saved fuzzing inputs
    let mut n_corpus = 0;
    if agg.failure.is_none() {
        let list = corpus_inputs();
        n_corpus = list.len();
        agg.merge(run_list(ctx, list));
    }
    agg.extra.insert("exhaustive_header_forms".into(), serde_json::json!(n_hf));
    agg.extra.insert("exhaustive_short_strings".into(), serde_json::json!(n_ss));
    agg.extra.insert("short_strings_complete_up_to_len".into(), serde_json::json!(ctx.tier.pick(2, 3)));
    agg.extra.insert("corpus_inputs_replayed".into(), serde_json::json!(n_corpus));
    finish(
        ctx,
        agg,
        Report {
            level: "exploration",
            rule: "three generators, each input fed both as the first packet (instead of CONNACK) and after CONNACK into a session holding one in-flight operation of every kind (QoS 1 publish, QoS 2 publish before PUBREC, QoS 2 publish before PUBCOMP, SUBSCRIBE, UNSUBSCRIBE, one pending inbound QoS 2 id), under generated read chunking: (i) exhaustive: every byte string of length 1-2 (quick: plus every 16th third byte; thorough: all of length 3) and 256 first bytes x 20 remaining-length forms (canonical, non-canonical, 5-byte) x 8 minimal bodies; (ii) every server packet type from the reference encoder in every legal encoding form with generated properties/identifiers, then one mutation (shrink/grow remaining length, non-canonical length, bumped string length, flag nibble, QoS 3, invalid UTF-8 topic, reserved/client-only type, oversize header, byte flip, truncation); (iii) replay of saved libFuzzer inputs. Oracle: reference classifier VALID / MALFORMED / UNSPECIFIED; VALID => exact effect through the API (delivery fields, addressed handle completes, Rejected(code), PUBREL/PUBCOMP/PUBACK/PUBREC reaction, CONNACK limits observable through quota/size/downgrade probes); MALFORMED => InvalidPacket, dead handle, no delivery, no reaction, no handle change; any panic is a violation. Non-trivial = the classifier fixes the outcome (VALID with a defined effect, or MALFORMED); distinct = distinct (state, bytes, chunking).".into(),
            assumptions: vec![
                "contents of property blocks outside CONNACK are decoded lazily by the client (documented on Properties::iter): broken contents there are UNSPECIFIED".into(),
                "acknowledgements whose identifier belongs to an operation of another kind, CONNACK after the handshake, AUTH, session-present on a clean start are broker protocol errors and UNSPECIFIED".into(),
            ],
        },
    )
}

fn intern(s: &str) -> &'static str {
    use std::collections::HashSet;
    use std::sync::Mutex;
    static POOL: OnceLock<Mutex<HashSet<&'static str>>> = OnceLock::new();
    let mut pool = POOL.get_or_init(|| Mutex::new(HashSet::new())).lock().unwrap();
    if let Some(x) = pool.get(s) {
        return x;
    }
    let leaked: &'static str = Box::leak(s.to_string().into_boxed_str());
    pool.insert(leaked);
    leaked
}

/// Inputs saved by the libFuzzer target (raw bytes; first byte selects the state).
pub fn corpus_inputs() -> Vec<Input> {
    let mut out = Vec::new();
    let dir = format!("{VERIF_ROOT}/corpus/fz_inbound");
    if let Ok(rd) = std::fs::read_dir(&dir) {
        let mut names: Vec<_> = rd.flatten().map(|e| e.path()).collect();
        names.sort();
        for p in names {
            if let Ok(b) = std::fs::read(&p) {
                if let Some(i) = input_from_fuzz_bytes(&b) {
                    out.push(i);
                }
            }
        }
    }
    out
}

/// Fuzzer byte layout: [selector][chunk][packet bytes…]
pub fn input_from_fuzz_bytes(b: &[u8]) -> Option<Input> {
    if b.len() < 3 {
        return None;
    }
    let state = if b[0] & 1 == 0 { St::AfterConnack } else { St::BeforeConnack };
    let read_chunks = match b[1] % 4 {
        0 => vec![],
        1 => vec![1],
        2 => vec![2, 1],
        _ => vec![(b[1] as u16 >> 2).max(1)],
    };
    Some(Input { state, bytes: b[2..].to_vec(), read_chunks, probe: b[0] >> 1 })
}

/// Inputs may hold more than one packet (fuzzing): the part after the first packet is only checked
/// for panics; the first packet alone goes through the full oracle.
pub fn eval_any(inp: &Input) -> Out {
    let first_len = match rc::get_varint(inp.bytes.get(1..).unwrap_or(&[])) {
        Ok(Some((rl, n))) => Some(1 + n + rl as usize),
        _ => None,
    };
    match first_len {
        Some(l) if l < inp.bytes.len() => {
            let whole = case_of(inp);
            let t = run_case(&whole);
            let mut out = eval(&Input { bytes: inp.bytes[..l].to_vec(), ..inp.clone() });
            if let Some(p) = &t.panic {
                let loc = p.rsplit(" @ ").next().unwrap_or("").to_string();
                out.violations.push(Violation { prop: "PANIC", sig: format!("panic/{loc}"), detail: format!("{p} on inbound bytes {}", hex(&inp.bytes)) });
            }
            out
        }
        _ => eval(inp),
    }
}

pub fn replay(inp: &Input) -> Vec<Violation> {
    eval_any(inp).violations
}
