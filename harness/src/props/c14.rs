//! C14 — Maximum Packet Size is honoured in both directions.

use crate::model::{Model, Violation};
use crate::refcodec::{self as rc, Packet, Prop, SubOpts};
use crate::runner::*;
use crate::scenario::*;
use crate::trace::*;
use crate::view::View;
use crate::world::run_case;
use proptest::prelude::*;

#[derive(Clone, Copy, Debug, PartialEq, Eq)]
pub enum Kind {
    Pub(u8),
    Sub,
    Unsub,
    Disc,
}

fn step_of(kind: Kind, pad: u32, seed: u8) -> Step {
    match kind {
        Kind::Pub(q) => Step::Publish(PubSpec::simple(q, 1, pad, seed)),
        Kind::Sub => Step::Subscribe {
            filters: vec![(TopicSpec::new(pad.max(1), seed & 0xfc), SubOpts { qos: 1, no_local: false, rap: false, retain_handling: 0 })],
            props: vec![],
            cancel: None,
        },
        Kind::Unsub => Step::Unsubscribe { filters: vec![TopicSpec::new(pad.max(1), seed & 0xfc)], props: vec![], cancel: None },
        Kind::Disc => match pad {
            0 => Step::Disconnect { reason: None, props: None, cancel: None },
            1 => Step::Disconnect { reason: Some(4), props: None, cancel: None },
            n => Step::Disconnect { reason: Some(0), props: Some(vec![Prop::ReasonString("r".repeat(n as usize - 2))]), cancel: None },
        },
    }
}

/// Reference-encoded length of the request a step makes (packet id filled in).
pub fn request_len(step: &Step) -> Option<usize> {
    let p = match step {
        Step::Publish(spec) => {
            let mut pb = crate::world::publish_request(spec);
            if pb.qos > 0 {
                pb.pid = Some(1);
            }
            Packet::Publish(pb)
        }
        Step::Subscribe { filters, props, .. } => {
            Packet::Subscribe { pid: 1, props: props.clone(), filters: filters.iter().map(|f| (f.0.filter(), f.1)).collect() }
        }
        Step::Unsubscribe { filters, props, .. } => Packet::Unsubscribe { pid: 1, props: props.clone(), filters: filters.iter().map(|f| f.filter()).collect() },
        Step::Disconnect { reason, props, .. } => {
            let r = match (reason, props) {
                (None, None) => None,
                (None, Some(_)) => Some(0),
                (Some(r), _) => Some(*r),
            };
            Packet::Disconnect { reason: r, props: props.clone() }
        }
        _ => return None,
    };
    rc::try_encode(&p).map(|b| b.len())
}

/// A request of `kind` whose reference encoding is exactly `target` bytes, or the closest one.
pub fn fit(kind: Kind, target: u32, seed: u8) -> Step {
    let mut best = step_of(kind, 0, seed);
    let mut best_d = u32::MAX;
    for pad in 0..=target + 2 {
        let s = step_of(kind, pad, seed);
        let l = request_len(&s).unwrap() as u32;
        let d = l.abs_diff(target);
        if d < best_d {
            best_d = d;
            best = s;
        }
        if l > target + 3 {
            break;
        }
    }
    best
}

fn kind() -> BoxedStrategy<Kind> {
    prop_oneof![
        3 => Just(Kind::Pub(0)),
        3 => Just(Kind::Pub(1)),
        2 => Just(Kind::Pub(2)),
        2 => Just(Kind::Sub),
        2 => Just(Kind::Unsub),
    ]
    .boxed()
}

pub fn strategy() -> BoxedStrategy<Case> {
    let max = prop_oneof![
        1 => Just(None),
        2 => (2u32..12).prop_map(Some),
        4 => (12u32..300).prop_map(Some),
        1 => prop::sample::select(vec![127u32, 128, 129, 130]).prop_map(Some),
    ];
    let req = (kind(), -3i32..=3, any::<u8>());
    let inbound = prop_oneof![
        4 => Just(0u8), // none
        2 => Just(1u8), // QoS 1 delivery (ack needed)
        1 => Just(2u8), // QoS 2 delivery + PUBREL
        2 => Just(3u8), // inbound packet of rx-1 / rx / rx+1 / huge bytes
        1 => Just(4u8), // PUBREL for an identifier the client does not hold (PUBCOMP 0x92 owed: 5 bytes)
    ];
    (
        max,
        12usize..400,
        prop::collection::vec(req, 1..6),
        inbound,
        0u8..6,
        prop_oneof![2 => Just(None), 2 => (-3i32..=3).prop_map(Some)],
        // second connection with a smaller maximum while something is retained
        prop_oneof![2 => Just(None), 1 => (2u32..40).prop_map(Some)],
        crate::cgen::chunks(),
        // a send window of one: quota that a refused request leaks shows up at once
        prop_oneof![3 => Just(false), 1 => Just(true)],
    )
        .prop_map(|(max, rx, reqs, inbound, in_size, disc, second, write_chunks, window_of_one)| {
            let m = max.unwrap_or(200);
            let mut steps: Vec<Step> = Vec::new();
            for (k, d, seed) in &reqs {
                let target = (m as i64 + *d as i64).max(2) as u32;
                steps.push(fit(*k, target, *seed));
                steps.push(Step::PollIdle { max: 12 });
            }
            match inbound {
                1 => {
                    steps.push(Step::Broker(BrokerAct::Deliver { qos: 1, retain: false, topic: TopicSpec::new(1, 1), payload: PayloadSpec::new(1, 1), props: vec![], redeliver: None }));
                    steps.push(Step::PollIdle { max: 6 });
                }
                2 => {
                    steps.push(Step::Broker(BrokerAct::Deliver { qos: 2, retain: false, topic: TopicSpec::new(1, 1), payload: PayloadSpec::new(1, 1), props: vec![], redeliver: None }));
                    steps.push(Step::PollIdle { max: 6 });
                    steps.push(Step::Broker(BrokerAct::PubRel { which: 0, unknown: None }));
                    steps.push(Step::PollIdle { max: 6 });
                }
                4 => {
                    steps.push(Step::Broker(BrokerAct::PubRel { which: 0, unknown: Some(9 + in_size as u16) }));
                    steps.push(Step::PollIdle { max: 6 });
                }
                3 => {
                    // a syntactically valid PUBLISH whose total length is rx-1, rx, rx+1 or huge
                    // (the last two sit on the 3- and 4-byte remaining-length boundaries)
                    let total = match in_size {
                        0 => rx - 1,
                        1 => rx,
                        2 => rx + 1,
                        3 => rx + 70_000,
                        4 => 16_384 + 4,
                        _ => 2_097_152 + 5,
                    };
                    let mut payload = total.saturating_sub(2 + 3 + 1);
                    let mut bytes = Vec::new();
                    for _ in 0..4 {
                        let p = rc::Publish { dup: false, qos: 0, retain: false, topic: "t".into(), pid: None, props: vec![], payload: vec![0x55; payload] };
                        bytes = rc::encode(&Packet::Publish(p));
                        if bytes.len() > total {
                            payload -= bytes.len() - total;
                        } else if bytes.len() < total {
                            payload += total - bytes.len();
                        } else {
                            break;
                        }
                    }
                    if in_size >= 3 {
                        // only the beginning of the huge packet ever arrives
                        bytes.truncate(40);
                    }
                    steps.push(Step::Broker(BrokerAct::Raw(bytes)));
                    steps.push(Step::Poll { cancel: None });
                    steps.push(Step::Publish(PubSpec::simple(0, 1, 1, 9)));
                }
                _ => {}
            }
            if let Some(d) = disc {
                let target = (m as i64 + d as i64).max(2) as u32;
                steps.push(fit(Kind::Disc, target, 0));
            }
            let io = IoCfg { read_chunks: vec![], write_chunks, pend_first: false, read_cuts: vec![] };
            let mut conns = vec![ConnScript {
                connect: ConnectSpec {
                    props: ConnackProps { max_packet: max, receive_max: if window_of_one && second.is_none() { Some(1) } else { None }, ..ConnackProps::default() },
                    io: io.clone(),
                    ..ConnectSpec::default()
                },
                steps,
                end: EndHow::Drop,
            }];
            let mut mode = BrokerMode::AutoAck;
            if let Some(m2) = second {
                // leave requests unacknowledged (and, sometimes, an acknowledgement owed: delivered by
                // a single poll, its ack not written yet), then resume under a smaller limit
                mode = BrokerMode::Scripted;
                if m2 % 2 == 0 {
                    let last = conns.last_mut().unwrap();
                    last.steps.push(Step::Broker(BrokerAct::Deliver { qos: 1 + (m2 % 4 / 2) as u8, retain: false, topic: TopicSpec::new(1, 2), payload: PayloadSpec::new(1, 2), props: vec![], redeliver: None }));
                    last.steps.push(Step::Poll { cancel: None });
                }
                conns.push(ConnScript {
                    connect: ConnectSpec { props: ConnackProps { max_packet: Some(m2), ..ConnackProps::default() }, io, ..ConnectSpec::default() },
                    steps: vec![Step::PollIdle { max: 4 }, Step::Publish(PubSpec::simple(0, 1, 0, 3)), Step::PollIdle { max: 4 }],
                    end: EndHow::Drop,
                });
            }
            Case { cfg: Cfg { rx, tx: 4096, unconditional_limits: true, ..Cfg::default() }, broker: mode, conns }
        })
        .boxed()
}

pub struct Out {
    pub violations: Vec<Violation>,
    pub near_limit: bool,
    pub replay_smaller: bool,
    pub ack_too_large: bool,
    pub inbound_boundary: bool,
    pub watchdog: bool,
}

fn sample_after(trace: &Trace, op: usize) -> Option<Sample> {
    let mut seen = false;
    for e in &trace.events {
        match e {
            Event::OpEnd { op: o, .. } if *o == op => seen = true,
            Event::Sample(s) if seen => return Some(s.clone()),
            _ => {}
        }
    }
    None
}

fn sample_before(trace: &Trace, op: usize) -> Option<Sample> {
    let mut last = None;
    for e in &trace.events {
        match e {
            Event::Sample(s) => last = Some(s.clone()),
            Event::OpStart { op: o, .. } if *o == op => return last,
            _ => {}
        }
    }
    None
}

pub fn eval(case: &Case) -> Out {
    let trace = run_case(case);
    let view = View::build(&trace);
    let (mut viol, stats) = Model::run(case, &view);
    viol.retain(|v| v.prop == "C14" || v.prop == "PANIC");
    let mut near_limit = false;
    let mut ack_too_large = false;
    let mut inbound_boundary = false;
    let bad = |v: &mut Vec<Violation>, sig: String, detail: String| {
        if !v.iter().any(|x| x.sig == sig) {
            v.push(Violation { prop: "C14", sig, detail });
        }
    };
    // (b) requests around the limit
    for (ci, cs) in case.conns.iter().enumerate() {
        let Some(max) = cs.connect.props.max_packet else { continue };
        if ci > 0 {
            // a retained packet that exceeds the new, smaller maximum blocks the connection; what
            // requests do then is not specified (only that nothing oversize is transmitted)
            continue;
        }
        for (si, step) in cs.steps.iter().enumerate() {
            let Some(len) = request_len(step) else { continue };
            let Some((opi, rec)) = trace.ops.iter().enumerate().find(|(_, o)| o.step == (ci, si)) else { continue };
            if (len as i64 - max as i64).abs() <= 1 {
                near_limit = true;
            }
            let before = sample_before(&trace, opi);
            if before.as_ref().is_some_and(|s| s.connected == Some(false)) {
                continue;
            }
            let too_large = rec.res == OpRes::Err(ErrKind::PacketTooLarge);
            if len as u64 > max as u64 {
                if !too_large {
                    bad(&mut viol, format!("C14/oversize-request-not-refused/{:?}", rec.kind), format!("{:?} of {len} bytes with broker maximum {max} returned {:?}, expected PacketTooLarge", rec.kind, rec.res));
                } else {
                    let after = sample_after(&trace, opi);
                    if before != after {
                        bad(&mut viol, format!("C14/refused-request-changed-state/{:?}", rec.kind), format!("{:?} refused as too large but state changed: {before:?} -> {after:?}", rec.kind));
                    }
                    if rec.io_calls.0 != rec.io_calls.1 {
                        bad(&mut viol, format!("C14/refused-request-wrote-bytes/{:?}", rec.kind), format!("{:?} refused as too large but performed transport I/O", rec.kind));
                    }
                }
            } else if too_large {
                bad(&mut viol, format!("C14/fitting-request-refused/{:?}", rec.kind), format!("{:?} of {len} bytes with broker maximum {max} was refused with PacketTooLarge", rec.kind));
            } else if !rec.res.is_done_ok() && ci == 0 && !matches!(rec.res, OpRes::Err(ErrKind::Disconnected | ErrKind::Transport)) {
                bad(&mut viol, format!("C14/fitting-request-failed/{:?}", rec.kind), format!("{:?} of {len} bytes with broker maximum {max} (ample local resources) returned {:?}", rec.kind, rec.res));
            }
        }
    }
    // (c) mandatory acknowledgements under a tiny maximum
    if let Some(max) = case.conns[0].connect.props.max_packet {
        let owed_consumed = trace.inbound.iter().any(|p| p.tr == 0 && matches!(&p.packet, Some(Packet::Publish(pb)) if pb.qos > 0));
        if owed_consumed {
            let acks_sent = view.out.iter().any(|p| p.tr == 0 && matches!(p.packet, Packet::PubAck(_) | Packet::PubRec(_)));
            let dead = trace.events.iter().rev().find_map(|e| if let Event::Sample(s) = e { s.connected.or(None) } else { None });
            let consumed = view.tl.iter().any(|t| matches!(t, crate::view::TL::InDone(i, _) if matches!(&trace.inbound[*i].packet, Some(Packet::Publish(pb)) if pb.qos > 0)));
            if consumed {
                if max <= 3 {
                    ack_too_large = true;
                    if acks_sent {
                        bad(&mut viol, "C14/oversize-ack-sent".into(), format!("broker maximum {max}: an acknowledgement was sent"));
                    }
                    let err = trace.ops.iter().any(|o| o.res == OpRes::Err(ErrKind::PacketTooLarge));
                    let last_conn0 = last_connected_sample(&trace, 0);
                    if !err || last_conn0 != Some(false) {
                        bad(&mut viol, "C14/unsendable-ack-did-not-close".into(), format!("broker maximum {max}: a mandatory acknowledgement cannot be sent, expected an error and a dead handle (error seen: {err}, is_connected at the end: {last_conn0:?})"));
                    }
                } else if max >= 5 && !acks_sent && idle_after_delivery(&trace) && last_connected_sample(&trace, 0) == Some(true) {
                    bad(&mut viol, "C14/fitting-ack-not-sent".into(), format!("broker maximum {max}: acknowledgement fits but was not sent"));
                }
            }
            let _ = dead;
        }
    }
    // (c') a PUBREL for an identifier the client does not hold must be answered with PUBCOMP 0x92
    // (5 bytes); if that does not fit the connection ends with an error, it is not left wedged
    if let Some(max) = case.conns[0].connect.props.max_packet {
        let unknown_rel = trace.inbound.iter().any(|p| p.tr == 0 && matches!(&p.packet, Some(Packet::PubRel(_))))
            && !trace.inbound.iter().any(|p| p.tr == 0 && matches!(&p.packet, Some(Packet::Publish(pb)) if pb.qos == 2));
        let consumed = view.tl.iter().any(|t| matches!(t, crate::view::TL::InDone(i, _) if trace.inbound[*i].tr == 0 && matches!(&trace.inbound[*i].packet, Some(Packet::PubRel(_)))));
        if unknown_rel && consumed {
            let comp_sent = view.out.iter().any(|p| p.tr == 0 && matches!(p.packet, Packet::PubComp(_)));
            if max <= 4 {
                ack_too_large = true;
                if comp_sent && max <= 3 {
                    bad(&mut viol, "C14/oversize-ack-sent".into(), format!("broker maximum {max}: a PUBCOMP was sent"));
                }
                let err = trace.ops.iter().any(|o| o.res == OpRes::Err(ErrKind::PacketTooLarge));
                let last_conn0 = last_connected_sample(&trace, 0);
                if max <= 3 && (!err || last_conn0 != Some(false)) {
                    bad(&mut viol, "C14/unsendable-ack-did-not-close".into(), format!("broker maximum {max}: the PUBCOMP owed for a PUBREL cannot be sent, expected an error and a dead handle (error seen: {err}, is_connected at the end: {last_conn0:?})"));
                }
            }
        }
    }
    // (f) inbound packets around the receive-buffer size
    for (ci, cs) in case.conns.iter().enumerate() {
        for (si, step) in cs.steps.iter().enumerate() {
            let Step::Broker(BrokerAct::Raw(bytes)) = step else { continue };
            let declared = match rc::decode(bytes) {
                Ok(d) => d.len,
                Err(rc::DecodeError::NeedMore(Some(n))) => n,
                _ => continue,
            };
            inbound_boundary = true;
            // the next op is the poll that consumes it
            let Some((opi, rec)) = trace.ops.iter().enumerate().find(|(_, o)| o.step == (ci, si + 1)) else { continue };
            if sample_before(&trace, opi).is_some_and(|s| s.connected == Some(false)) {
                continue;
            }
            if declared > case.cfg.rx {
                if rec.res != OpRes::Err(ErrKind::InvalidPacket) {
                    bad(&mut viol, "C14/oversize-inbound-not-rejected".into(), format!("inbound packet of {declared} bytes with a {}-byte receive buffer: poll returned {:?}", case.cfg.rx, rec.res));
                }
                if sample_after(&trace, opi).is_some_and(|s| s.connected != Some(false)) {
                    bad(&mut viol, "C14/oversize-inbound-left-handle-alive".into(), "handle still connected after an oversize inbound packet".into());
                }
            } else if !matches!(rec.res, OpRes::Message(_)) {
                bad(&mut viol, "C14/fitting-inbound-rejected".into(), format!("inbound PUBLISH of {declared} bytes fits the {}-byte receive buffer but poll returned {:?}", case.cfg.rx, rec.res));
            } else if let OpRes::Message(mi) = rec.res {
                if trace.deliveries[mi].payload.len() + 6 > declared || trace.deliveries[mi].payload.iter().any(|b| *b != 0x55) {
                    bad(&mut viol, "C14/fitting-inbound-corrupted".into(), "payload of a buffer-filling inbound PUBLISH differs".into());
                }
            }
        }
    }
    let replay_smaller = case.conns.len() > 1 && stats.resumed_with_inflight > 0;
    Out { violations: viol, near_limit, replay_smaller, ack_too_large, inbound_boundary, watchdog: trace.watchdog }
}

/// On transport 0: did a poll block (idle wait) after an inbound QoS>0 PUBLISH was delivered?
fn idle_after_delivery(trace: &Trace) -> bool {
    let mut delivered = false;
    for e in &trace.events {
        match e {
            Event::Delivery { tr: 0, msg, .. } if trace.deliveries[*msg].qos > 0 => delivered = true,
            Event::OpEnd { tr: 0, res: OpRes::Blocked { .. }, .. } if delivered => return true,
            Event::ConnStart { tr, .. } if *tr != 0 => return false,
            _ => {}
        }
    }
    false
}

fn last_connected_sample(trace: &Trace, tr: usize) -> Option<bool> {
    // last sample taken through the connection handle of transport `tr`
    let mut cur = None;
    let mut last = None;
    for e in &trace.events {
        match e {
            Event::ConnStart { tr: t, .. } => cur = Some(*t),
            Event::Sample(s) if cur == Some(tr) => {
                if let Some(c) = s.connected {
                    last = Some(c);
                }
            }
            _ => {}
        }
    }
    last
}

pub fn run(ctx: &Ctx) -> i32 {
    let cases = ctx.tier.pick(240_000, 6_000_000);
    let agg = run_prop(ctx, "case-c14", 16, cases, strategy, |case: &Case| {
        let out = eval(case);
        let mut classes = Vec::new();
        if out.near_limit {
            classes.push("request-within-1-of-limit");
        }
        if out.replay_smaller {
            classes.push("replay-under-smaller-limit");
        }
        if out.ack_too_large {
            classes.push("mandatory-ack-too-large");
        }
        if out.inbound_boundary {
            classes.push("inbound-around-receive-buffer");
        }
        Eval { nontrivial: out.near_limit || out.replay_smaller || out.ack_too_large || out.inbound_boundary, violations: out.violations, classes, watchdog: out.watchdog }
    });
    finish(
        ctx,
        agg,
        Report {
            level: "exploration",
            rule: "broker Maximum Packet Size drawn from {absent, 2..11, 12..299, 127..130}; 1-5 requests (publish QoS 0/1/2, subscribe, unsubscribe, disconnect incl. reason string) whose reference-encoded length is the limit -3..+3; inbound QoS 1/2 deliveries whose mandatory acks may not fit; inbound PUBLISH of exactly rx-1 / rx / rx+1 / rx+70000 declared bytes for receive buffers of 12..399 bytes; optionally a resumed second connection with a smaller maximum while requests are still retained; partial writes. Oracle: no outbound packet longer than the current maximum; a request is refused with PacketTooLarge iff its reference-encoded length exceeds the maximum (both directions) and then performs no I/O and changes no observable state; an acknowledgement that cannot fit (maximum <= 3) ends the connection with an error, one that fits (>= 5) is sent; CONNECT advertises the receive-buffer size; an inbound packet larger than the receive buffer yields InvalidPacket and a dead handle, one that fits is delivered intact. Non-trivial = a request within 1 byte of the limit, a replay under a smaller limit, an unsendable ack, or an inbound packet at the receive-buffer boundary; distinct = distinct case value.".into(),
            assumptions: vec![
                "a maximum of exactly 4 bytes leaves the acknowledgement outcome unspecified (a 4-byte short-form ack would fit, the 5-byte form does not)".into(),
                "what the client does with a retained packet that exceeds a later, smaller maximum is not specified beyond 'it is not transmitted'".into(),
            ],
        },
    )
}

pub fn replay(case: &Case) -> Vec<Violation> {
    eval(case).violations
}
