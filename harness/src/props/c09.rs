//! C09 — what the broker decodes is exactly what the application asked to send.
//!
//! Generator: rich configurations (will/auth/keep-alive/expiry/client id), every publish property
//! kind and combination, all subscription option combinations, lengths placed on the 1/2/3/4-byte
//! remaining-length boundaries, fields longer than 65535 bytes and transmit buffers that are too
//! small. Oracle: the strict reference decode of the captured bytes equals the request (history
//! model, C09 rules), plus: an unencodable request fails and leaves nothing on the wire, an
//! encodable one with ample resources succeeds.

use crate::cgen;
use crate::model::{Model, Violation};
use crate::refcodec::{self as rc, Packet, Prop, SubOpts};
use crate::runner::*;
use crate::scenario::*;
use crate::trace::*;
use crate::view::View;
use crate::world::run_case;
use proptest::prelude::*;

fn will_props() -> BoxedStrategy<Vec<Prop>> {
    let one = prop_oneof![
        (0u8..2).prop_map(Prop::PayloadFormat),
        any::<u32>().prop_map(Prop::MessageExpiry),
        "[a-z/]{0,10}".prop_map(Prop::ContentType),
        (1u32..12, any::<u8>()).prop_map(|(l, v)| Prop::ResponseTopic(TopicSpec::new(l, v).name())),
        prop::collection::vec(any::<u8>(), 0..8).prop_map(Prop::CorrelationData),
        any::<u32>().prop_map(Prop::WillDelay),
        ("[a-z]{0,5}", "[a-zé€]{0,5}").prop_map(|(k, v)| Prop::UserProperty(k, v)),
    ];
    prop::collection::vec(one, 0..5)
        .prop_map(|v| {
            let mut out: Vec<Prop> = Vec::new();
            for p in v {
                if p.id() == 0x26 || !out.iter().any(|q| q.id() == p.id()) {
                    out.push(p);
                }
            }
            out
        })
        .boxed()
}

fn cfg_strategy() -> BoxedStrategy<Cfg> {
    let will = prop_oneof![
        2 => Just(None),
        3 => (1u32..100, any::<u8>(), 0u32..200, any::<u8>(), 0u8..3, any::<bool>(), will_props()).prop_map(|(tl, tv, pl, ps, qos, retain, props)| {
            Some(WillCfg { topic: TopicSpec::new(tl.min(128), tv), payload: PayloadSpec::new(pl, ps), qos, retain, props })
        }),
    ];
    let auth = prop_oneof![
        2 => Just(None),
        1 => ("[a-zé]{0,12}", prop::collection::vec(any::<u8>(), 0..20)).prop_map(Some),
    ];
    let keepalive = prop_oneof![Just(0u16), Just(1), Just(60), Just(65535), any::<u16>()];
    let expiry = prop_oneof![Just(0u32), Just(1), Just(u32::MAX), any::<u32>()];
    let cid = prop_oneof![Just(String::new()), "[a-zA-Z0-9]{1,23}", "[a-zé€]{1,10}", Just("x".repeat(64))];
    (will, auth, keepalive, expiry, cid, 64usize..300, any::<bool>())
        .prop_map(|(will, auth, keepalive, session_expiry, client_id, rx, downgrade)| Cfg {
            rx,
            tx: 0,
            client_id,
            keepalive,
            session_expiry,
            downgrade,
            will,
            auth,
            jitter_us: 0,
            ping_delays_us: vec![],
            unconditional_limits: false,
        })
        .boxed()
}

#[derive(Clone, Copy, Debug)]
enum SizeClass {
    Small,
    /// remaining length exactly `b + d`
    Boundary(u32, i32),
    /// one field longer than 65535 bytes
    FieldTooLong(u8),
}

fn size_class(thorough: bool) -> BoxedStrategy<SizeClass> {
    let b3: u32 = 2_097_152;
    let mut alts: Vec<(u32, BoxedStrategy<SizeClass>)> = vec![
        (10, Just(SizeClass::Small).boxed()),
        (4, (-2i32..3).prop_map(|d| SizeClass::Boundary(128, d)).boxed()),
        (3, (-2i32..3).prop_map(|d| SizeClass::Boundary(16_384, d)).boxed()),
        (2, (0u8..5).prop_map(SizeClass::FieldTooLong).boxed()),
    ];
    alts.push((if thorough { 1 } else { 1 }, (-2i32..3).prop_map(move |d| SizeClass::Boundary(b3, d)).boxed()));
    proptest::strategy::Union::new_weighted(alts).boxed()
}

fn body_len(p: &Packet) -> usize {
    let e = rc::encode(p);
    let (_, n) = rc::get_varint(&e[1..]).unwrap().unwrap();
    e.len() - 1 - n
}

fn pub_step(thorough: bool) -> BoxedStrategy<Step> {
    (0u8..3, any::<bool>(), 1u32..40, any::<u8>(), any::<u8>(), cgen::publish_props(), prop_oneof![3 => Just(None), 1 => prop::collection::vec(any::<u8>(), 0..9).prop_map(Some)], size_class(thorough))
        .prop_map(|(qos, retain, tl, tv, ps, mut props, correlate, sc)| {
            if correlate.is_some() {
                props.retain(|q| q.id() != 0x09);
            }
            let mut spec = PubSpec { qos, retain, topic: TopicSpec::new(tl, tv), payload: PayloadSpec::new(8, ps), props, correlate, cancel: None, via: match tv % 8 { 0 => 1, 1 => 2, _ => 0 } };
            match sc {
                SizeClass::Small => {}
                SizeClass::Boundary(b, d) => {
                    spec.payload.len = 0;
                    let mut req = crate::world::publish_request(&spec);
                    if qos > 0 {
                        req.pid = Some(1);
                    }
                    let base = body_len(&Packet::Publish(req)) as i64;
                    let want = b as i64 + d as i64;
                    spec.payload.len = (want - base).max(0) as u32;
                }
                SizeClass::FieldTooLong(which) => match which {
                    0 => spec.topic = TopicSpec::new(65_536 + tl, tv),
                    1 => {
                        spec.props.retain(|q| q.id() != 0x03);
                        spec.props.push(Prop::ContentType("c".repeat(65_536)));
                    }
                    2 => {
                        spec.props.retain(|q| q.id() != 0x09);
                        spec.correlate = Some(vec![7u8; 65_536 + tl as usize]);
                    }
                    3 => spec.props.push(Prop::UserProperty("k".into(), "v".repeat(70_000))),
                    _ => {
                        spec.props.retain(|q| q.id() != 0x08);
                        spec.props.push(Prop::ResponseTopic("r".repeat(65_536)));
                    }
                },
            }
            Step::Publish(spec)
        })
        .boxed()
}

fn sub_step() -> BoxedStrategy<Step> {
    let user = prop::collection::vec(("[a-z]{0,4}", "[a-zé]{0,6}").prop_map(|(k, v)| Prop::UserProperty(k, v)), 0..3);
    let filt = (prop_oneof![8 => 1u32..30, 1 => Just(200u32), 1 => Just(70_000u32)], any::<u8>(), cgen::sub_opts());
    prop_oneof![
        (prop::collection::vec(filt.clone(), 1..7), user.clone(), prop_oneof![2 => Just(None), 2 => prop_oneof![Just(1u32), Just(127), Just(128), Just(16_383), Just(16_384), Just(2_097_151), Just(2_097_152), Just(33_554_431), Just(33_554_432), Just(268_435_455), 1u32..=268_435_455].prop_map(Some)]).prop_map(|(f, mut props, sid)| {
            if let Some(s) = sid {
                props.push(Prop::SubscriptionId(s));
            }
            Step::Subscribe { filters: f.into_iter().map(|(l, v, o): (u32, u8, SubOpts)| (TopicSpec::new(l, v), o)).collect(), props, cancel: None }
        }),
        (prop::collection::vec(filt, 1..7), user).prop_map(|(f, props)| Step::Unsubscribe {
            filters: f.into_iter().map(|(l, v, _)| TopicSpec::new(l, v)).collect(),
            props,
            cancel: None
        }),
    ]
    .boxed()
}

fn disconnect_step() -> BoxedStrategy<Step> {
    let props = prop_oneof![
        2 => Just(None),
        1 => Just(Some(vec![])),
        3 => prop::collection::vec(
            prop_oneof![
                any::<u32>().prop_map(Prop::SessionExpiry),
                "[a-z ]{0,20}".prop_map(Prop::ReasonString),
                ("[a-z]{0,4}", "[a-z]{0,4}").prop_map(|(k, v)| Prop::UserProperty(k, v)),
            ],
            1..4
        )
        .prop_map(|v| {
            let mut out: Vec<Prop> = Vec::new();
            for p in v {
                if p.id() == 0x26 || !out.iter().any(|q| q.id() == p.id()) {
                    out.push(p);
                }
            }
            Some(out)
        }),
    ];
    (prop_oneof![Just(None), Just(Some(0u8)), Just(Some(4u8)), Just(Some(0x80u8)), Just(Some(0x93u8))], props)
        .prop_map(|(reason, props)| Step::Disconnect { reason, props, cancel: None })
        .boxed()
}

/// Largest encoded request of the case (to size the transmit arena).
fn largest_request(steps: &[Step]) -> usize {
    let mut m = 64usize;
    for s in steps {
        let n = match s {
            Step::Publish(p) => p.topic.len as usize + p.payload.len as usize + p.props.iter().map(prop_size).sum::<usize>() + p.correlate.as_ref().map(|c| c.len() + 3).unwrap_or(0) + 16,
            Step::Subscribe { filters, props, .. } => filters.iter().map(|f| f.0.len as usize + 3).sum::<usize>() + props.iter().map(prop_size).sum::<usize>() + 16,
            Step::Unsubscribe { filters, props, .. } => filters.iter().map(|f| f.len as usize + 2).sum::<usize>() + props.iter().map(prop_size).sum::<usize>() + 16,
            _ => 0,
        };
        m = m.max(n);
    }
    m
}

fn prop_size(p: &Prop) -> usize {
    match p {
        Prop::ContentType(s) | Prop::ResponseTopic(s) | Prop::ReasonString(s) => s.len() + 3,
        Prop::CorrelationData(b) => b.len() + 3,
        Prop::UserProperty(k, v) => k.len() + v.len() + 5,
        _ => 5,
    }
}

fn history_profile() -> cgen::Profile {
    cgen::Profile {
        conns: (2, 4),
        steps: (2, 14),
        tx: (64, 600),
        keep_session_pct: 95,
        handshake_failures: 5,
        w_pub: [3, 8, 5],
        w_sub: 3,
        w_unsub: 2,
        w_ack: 9,
        w_ackall: 1,
        w_deliver: 1,
        payload_max: 5,
        topic_max: 3,
        pub_props: false,
        session_expiry: vec![3600],
        // a due PINGREQ must not land inside a half-written request either
        keepalive: vec![0, 0, 1, 3],
        w_advance: 2,
        ..cgen::Profile::default()
    }
}

pub fn strategy(thorough: bool) -> BoxedStrategy<Case> {
    let op = prop_oneof![5 => pub_step(thorough), 3 => sub_step()];
    (
        cfg_strategy(),
        prop::collection::vec(op, 1..4),
        prop_oneof![2 => Just(None), 1 => disconnect_step().prop_map(Some)],
        prop_oneof![3 => Just(None), 1 => any::<u16>().prop_map(Some)],
        prop_oneof![3 => Just(None), 1 => "[a-z0-9]{1,30}".prop_map(Some)],
        prop_oneof![8 => Just(0u8), 1 => Just(1u8), 1 => Just(2u8)],
        cgen::chunks(),
        any::<bool>(),
        prop_oneof![3 => Just(None), 1 => (0u8..3).prop_map(Some)],
    )
        .prop_map(|(mut cfg, ops, disc, server_keepalive, assigned_id, tx_mode, write_chunks, second_conn, max_qos)| {
            let need = largest_request(&ops);
            // tx_mode 0: ample (twice the largest request); 1: a little too small; 2: tiny
            cfg.tx = match tx_mode {
                0 => 2 * need.min(2_200_000) + 128,
                1 => (need.min(2_200_000) / 2).max(24),
                _ => 24,
            };
            if need > 100_000 {
                cfg.tx = cfg.tx.max(if tx_mode == 0 { need.min(2_200_000) + 64 } else { 64 });
            }
            let mut steps: Vec<Step> = Vec::new();
            // acknowledgements are outbound packets too: one inbound QoS 1 and one QoS 2 exchange
            steps.push(Step::Broker(BrokerAct::Deliver { qos: 1, retain: false, topic: TopicSpec::new(2, 1), payload: PayloadSpec::new(2, 1), props: vec![], redeliver: None }));
            steps.push(Step::Broker(BrokerAct::Deliver { qos: 2, retain: true, topic: TopicSpec::new(2, 2), payload: PayloadSpec::new(2, 2), props: vec![], redeliver: None }));
            steps.push(Step::PollIdle { max: 12 });
            for o in ops {
                steps.push(o);
                // keep the arena empty between requests so that success is predictable
                steps.push(Step::PollIdle { max: 12 });
            }
            if let Some(d) = disc {
                steps.push(d);
            }
            let io = IoCfg { read_chunks: vec![], write_chunks: if need > 100_000 { vec![] } else { write_chunks }, pend_first: false, read_cuts: vec![] };
            let connect = ConnectSpec {
                props: ConnackProps { server_keepalive, assigned_id, max_qos, ..ConnackProps::default() },
                io: io.clone(),
                ..ConnectSpec::default()
            };
            let mut conns = vec![ConnScript { connect, steps, end: EndHow::Drop }];
            if second_conn {
                conns.push(ConnScript {
                    connect: ConnectSpec { io, ..ConnectSpec::default() },
                    // the second CONNACK carries no limits: nothing learned earlier may leak into it
                    steps: vec![Step::Publish(PubSpec::simple(0, 3, 3, 1)), Step::Publish(PubSpec::simple(2, 3, 3, 2)), Step::Publish(PubSpec::simple(1, 3, 3, 3))],
                    end: EndHow::Drop,
                });
            }
            Case { cfg, broker: BrokerMode::AutoAck, conns }
        })
        .boxed()
}

pub struct Out {
    pub violations: Vec<Violation>,
    pub boundary: bool,
    pub too_long: bool,
    pub rich_connect: bool,
    pub prop_block: bool,
    pub small_tx: bool,
    pub watchdog: bool,
}

pub fn eval(case: &Case) -> Out {
    let trace = run_case(case);
    let view = View::build(&trace);
    let (mut viol, _) = Model::run(case, &view);
    // what the broker decodes from the client's acknowledgements (identifier, reason class, order)
    for v in viol.iter_mut() {
        if v.prop == "C04" && (v.sig.starts_with("C04/unexpected-ack") || v.sig.starts_with("C04/ack-reason") || v.sig.starts_with("C04/ack-order") || v.sig.starts_with("C04/ack-not-sent")) {
            v.prop = "C09";
            v.sig = format!("C09/acknowledgement/{}", v.sig);
        }
    }
    viol.retain(|v| v.prop == "C09" || v.prop == "PANIC");
    let mut boundary = false;
    let mut too_long = false;
    let mut prop_block = false;
    // per-request expectations
    let ample = case.cfg.tx >= 2 * largest_request(&case.conns[0].steps) + 128;
    for r in &trace.requests {
        let Some(p) = &r.packet else { continue };
        let mut q = p.clone();
        if let Packet::Publish(pb) = &mut q {
            if pb.qos > 0 {
                pb.pid = Some(1);
            }
        }
        let rec = &trace.ops[r.op];
        if rec.kind == OpKind::Disconnect {
            continue;
        }
        match rc::try_encode(&q) {
            None => {
                too_long = true;
                if rec.res.is_done_ok() {
                    viol.push(Violation { prop: "C09", sig: format!("C09/unencodable-request-accepted/{:?}", rec.kind), detail: format!("op {} ({:?}) carries a field longer than 65535 bytes but returned {:?}", r.op, rec.kind, rec.res) });
                }
                if rec.io_calls.0 != rec.io_calls.1 {
                    viol.push(Violation { prop: "C09", sig: format!("C09/unencodable-request-wrote-bytes/{:?}", rec.kind), detail: format!("op {} ({:?}) cannot be encoded but performed {} I/O calls", r.op, rec.kind, rec.io_calls.1 - rec.io_calls.0) });
                }
            }
            Some(bytes) => {
                let (rl, _) = rc::get_varint(&bytes[1..]).unwrap().unwrap();
                for b in [128u32, 16_384, 2_097_152] {
                    if (rl as i64 - b as i64).abs() <= 2 {
                        boundary = true;
                    }
                }
                let has_props = match &q {
                    Packet::Publish(pb) => !pb.props.is_empty(),
                    Packet::Subscribe { props, .. } | Packet::Unsubscribe { props, .. } => !props.is_empty(),
                    _ => false,
                };
                prop_block |= has_props;
                if ample && rec.tr == 0 && !rec.res.is_done_ok() && !matches!(rec.res, OpRes::Err(ErrKind::Disconnected | ErrKind::Transport)) {
                    viol.push(Violation { prop: "C09", sig: format!("C09/encodable-request-refused/{:?}", rec.kind), detail: format!("op {} ({:?}, {} bytes encoded, tx {} bytes, nothing else in flight) returned {:?}", r.op, rec.kind, bytes.len(), case.cfg.tx, rec.res) });
                }
            }
        }
    }
    Out {
        violations: viol,
        boundary,
        too_long,
        rich_connect: case.cfg.will.is_some() || case.cfg.auth.is_some(),
        prop_block,
        small_tx: !ample,
        watchdog: trace.watchdog,
    }
}

pub fn run(ctx: &Ctx) -> i32 {
    let cases = ctx.tier.pick(30_000, 800_000);
    let thorough = ctx.tier == Tier::Thorough;
    let agg = run_prop(ctx, "case-c09", 16, cases, move || strategy(thorough), |case: &Case| {
        let out = eval(case);
        let mut classes = Vec::new();
        if out.boundary {
            classes.push("remaining-length-boundary");
        }
        if out.too_long {
            classes.push("field-longer-than-65535");
        }
        if out.rich_connect {
            classes.push("will-or-auth");
        }
        if out.prop_block {
            classes.push("property-block");
        }
        if out.small_tx {
            classes.push("transmit-buffer-too-small");
        }
        Eval { nontrivial: out.boundary || out.rich_connect || out.prop_block, violations: out.violations, classes, watchdog: out.watchdog }
    });
    // retransmissions are outbound packets too: histories with several packets in flight, partial
    // acknowledgement and resumed reconnects, judged by the history monitor's C09 rules
    let mut agg = agg;
    let hist = run_prop(ctx, "case", 16, ctx.tier.pick(60_000, 1_500_000), || cgen::case(&history_profile()), |case: &Case| {
        let (violations, stats, trace) = crate::props::scen::eval_case(case);
        let mut classes = Vec::new();
        if stats.replays > 0 {
            classes.push("retransmission-decoded");
        }
        if stats.replays > 0 && stats.acks_out_of_order + stats.resumed_with_inflight > 0 {
            classes.push("retransmission-after-partial-acknowledgement");
        }
        Eval { nontrivial: stats.replays > 0, violations, classes, watchdog: trace.watchdog }
    });
    agg.merge(hist);
    agg.merge(crate::props::scen::replay_saved(ctx, "C09", &|st, _| st.replays > 0));
    finish(
        ctx,
        agg,
        Report {
            level: "exploration",
            rule: "generated configurations (will on/off x QoS x retain x will property sets incl. Will Delay, auth, keep-alive {0,1,60,65535,any}, session expiry, client ids of 0..64 bytes, optional Server Keep Alive / Assigned Client Identifier followed by a second CONNECT) and 1-3 requests: publishes with every publish property kind and combination incl. correlate(), payload sized so the remaining length is 128/16384/2097152 +-2, fields of 65536+ bytes, subscribe with 1-6 filters x all option combinations x subscription ids, unsubscribe lists, disconnect reasons/properties; transmit arena ample, slightly too small or tiny; partial writes. Oracle: strict reference decode of every captured packet equals the request field by field (properties as multisets), CONNECT fields equal the configuration, unencodable => error and zero I/O, encodable with ample resources => accepted. Non-trivial = a remaining length within 2 of a varint boundary, a property block, or a will/auth configuration; distinct = distinct case value. Second generator: histories of 2-4 resumed connections on 64-600 byte arenas with several short (hence often equally long) packets in flight and partial acknowledgement; every retransmission must still decode to the request (non-trivial = a retransmission was decoded).".into(),
            assumptions: vec![
                "property order inside a packet is not specified by the API (correlate() may be placed anywhere): property lists are compared as multisets".into(),
                "reference codec (harness/src/refcodec.rs) is the trusted decoder".into(),
            ],
        },
    )
}

pub fn replay(case: &Case) -> Vec<Violation> {
    eval(case).violations
}
