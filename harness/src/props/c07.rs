//! C07 — packet identifiers in flight are non-zero and pairwise distinct, across the 16-bit wrap.
//!
//! The generic monitor already checks every identifier-bearing packet against the model's
//! in-flight set; what this check adds is a generator that actually reaches the wrap: a window of
//! long-lived operations, then tens of thousands of identifier allocations (cheap locally refused
//! publishes, `Step::Burn`), then new operations whose identifiers land around the ones still in use.

use crate::cgen::{self, Profile};
use crate::props::scen::eval_case;
use crate::refcodec::SubOpts;
use crate::runner::*;
use crate::scenario::*;
use crate::trace::EndHow;
use proptest::prelude::*;

fn tail_profile() -> Profile {
    Profile {
        w_pub: [1, 6, 6],
        w_sub: 4,
        w_unsub: 4,
        w_poll: 3,
        w_idle: 4,
        w_recv: 0,
        w_drive: 1,
        w_ack: 6,
        w_ackall: 1,
        w_stale: 0,
        w_deliver: 0,
        w_redeliver: 0,
        w_pubrel: 0,
        w_disconnect: 0,
        w_server_disconnect: 0,
        w_setio: 0,
        w_fault: 0,
        w_eof: 0,
        fail_reason_pct: 5,
        payload_max: 6,
        topic_max: 4,
        pub_props: false,
        cancels: false,
        faults: false,
        ..Profile::default()
    }
}

fn multi_profile() -> Profile {
    Profile {
        conns: (2, 6),
        steps: (0, 8),
        handshake_failures: 30,
        keep_session_pct: 92,
        w_pub: [0, 6, 6],
        w_sub: 3,
        w_unsub: 3,
        w_ack: 4,
        w_deliver: 0,
        w_redeliver: 0,
        w_pubrel: 0,
        payload_max: 6,
        topic_max: 4,
        pub_props: false,
        session_expiry: vec![3600],
        ..Profile::default()
    }
}

pub fn strategy() -> BoxedStrategy<Case> {
    let p = tail_profile();
    (
        1u16..=12,                                          // receive maximum = window of long-lived publishes (the local limit is 8)
        prop::collection::vec((1u8..3, any::<u8>()), 12),   // kinds of the window publishes
        0usize..3,                                          // extra subscribes in flight
        0usize..2,                                          // extra unsubscribes in flight
        prop::collection::vec(any::<u16>(), 0..11),         // PUBREC some QoS 2 before the burn
        -4i32..12,                                          // landing offset around the in-flight ids
        1u32..3,                                            // number of wraps
        prop::collection::vec(cgen::step(&p), 1..12),       // tail
        any::<bool>(),                                      // resumed reconnect between burn and tail
        any::<bool>(),                                      // start with a throw-away fresh session
        any::<u16>(),
        (any::<bool>(), 0u8..5, 1u8..4),                    // in-flight operations at the top of the id range
    )
        .prop_map(|(rm, kinds, nsub, nunsub, recs, off, wraps, tail, reconnect, prelude, which, high)| {
            // keep room in the eight in-flight slots for the high-range operations
            let (rm, nsub, nunsub) = if high.0 { (rm.min(3), nsub.min(1), nunsub.min(1)) } else { (rm, nsub, nunsub) };
            let mut steps: Vec<Step> = Vec::new();
            let mut allocs = 0i64;
            for i in 0..nsub {
                steps.push(Step::Subscribe {
                    filters: vec![(TopicSpec::new(3, i as u8), SubOpts { qos: 1, no_local: false, rap: false, retain_handling: 0 })],
                    props: vec![],
                    cancel: None,
                });
                allocs += 1;
            }
            for i in 0..nunsub {
                steps.push(Step::Unsubscribe { filters: vec![TopicSpec::new(3, 40 + i as u8)], props: vec![], cancel: None });
                allocs += 1;
            }
            for (q, seed) in kinds.iter().take(rm as usize) {
                steps.push(Step::Publish(PubSpec::simple(*q, 2, 3, *seed)));
                allocs += 1;
            }
            for w in &recs {
                // only publishes can be acknowledged here: subscribe/unsubscribe stay in flight
                steps.push(Step::Broker(BrokerAct::Ack { which: (*w).max(((nsub + nunsub) as u32 * 65536 / (allocs as u32).max(1)) as u16), reason: 0, form: AckForm::Short }));
                steps.push(Step::Poll { cancel: None });
            }
            // the window is full again only if the acknowledged ones were QoS 2 (PUBREC keeps the
            // message in flight); a completed QoS 1 frees one slot, refill it
            steps.push(Step::Publish(PubSpec::simple(1, 2, 1, 200)));
            steps.push(Step::Publish(PubSpec::simple(2, 2, 1, 201)));
            if high.0 {
                // second family: leave SUBSCRIBE/UNSUBSCRIBE in flight at the very top of the identifier
                // range (65533..65535, wrapping to 1..), then come around once more
                let n1 = (65535i64 - allocs - 2 - high.1 as i64).max(0) as u32;
                steps.push(Step::Burn { n: n1 });
                for i in 0..high.2 {
                    if i % 2 == 0 {
                        steps.push(Step::Subscribe {
                            filters: vec![(TopicSpec::new(3, 80 + i), SubOpts { qos: 0, no_local: false, rap: false, retain_handling: 0 })],
                            props: vec![],
                            cancel: None,
                        });
                    } else {
                        steps.push(Step::Unsubscribe { filters: vec![TopicSpec::new(3, 90 + i)], props: vec![], cancel: None });
                    }
                }
                let n2 = (65535i64 - high.2 as i64 - 3 + off as i64).max(0) as u32;
                steps.push(Step::Burn { n: n2 });
            } else {
                let n = (65535i64 * wraps as i64 - allocs - 2 + off as i64).max(0) as u32;
                steps.push(Step::Burn { n });
            }
            let mut conns = Vec::new();
            let connect = ConnectSpec {
                props: ConnackProps { receive_max: Some(rm), ..ConnackProps::default() },
                ..ConnectSpec::default()
            };
            if prelude {
                conns.push(ConnScript {
                    connect: connect.clone(),
                    steps: vec![Step::Publish(PubSpec::simple(1, 2, 1, 9)), Step::Subscribe {
                        filters: vec![(TopicSpec::new(2, 1), SubOpts { qos: 0, no_local: false, rap: false, retain_handling: 0 })],
                        props: vec![],
                        cancel: None,
                    }],
                    end: EndHow::Drop,
                });
            }
            let mut tail_steps = vec![
                Step::Broker(BrokerAct::Ack { which, reason: 0, form: AckForm::Short }),
                Step::PollIdle { max: 8 },
            ];
            tail_steps.extend(tail);
            tail_steps.push(Step::Publish(PubSpec::simple(1, 2, 2, 77)));
            tail_steps.push(Step::Subscribe {
                filters: vec![(TopicSpec::new(2, 7), SubOpts { qos: 2, no_local: true, rap: false, retain_handling: 1 })],
                props: vec![],
                cancel: None,
            });
            tail_steps.push(Step::Broker(BrokerAct::AckAll { reverse: false }));
            tail_steps.push(Step::PollIdle { max: 40 });
            if reconnect {
                conns.push(ConnScript { connect: ConnectSpec { keep_session: !prelude || true, ..connect.clone() }, steps, end: EndHow::Drop });
                conns.push(ConnScript { connect: connect.clone(), steps: tail_steps, end: EndHow::Drop });
            } else {
                steps.extend(tail_steps);
                conns.push(ConnScript { connect: connect.clone(), steps, end: EndHow::Drop });
            }
            if prelude {
                // the first real connection must start a fresh broker session
                conns[1].connect.keep_session = false;
            }
            Case { cfg: Cfg { rx: 128, tx: 2048, ..Cfg::default() }, broker: BrokerMode::Scripted, conns }
        })
        .boxed()
}

/// Third generator: a *dense block* of more identifiers in use than the send window is wide. All
/// eight local publish slots are QoS 2 exchanges waiting for PUBCOMP (ids 1..8), 1-7 SUBSCRIBE /
/// UNSUBSCRIBE requests (outside the publish quota) are unacknowledged behind them, then the counter
/// is burnt once around so that it lands in front of / inside the block, and new SUBSCRIBE /
/// UNSUBSCRIBE requests must skip all of it.
pub fn dense_block() -> BoxedStrategy<Case> {
    (1usize..8, -3i32..14, 1usize..5, any::<bool>(), prop::collection::vec(any::<bool>(), 7), 0usize..3)
        .prop_map(|(j, off, fresh_ops, resume, kinds, acked_subs)| {
            let so = SubOpts { qos: 1, no_local: false, rap: false, retain_handling: 0 };
            let mut steps: Vec<Step> = Vec::new();
            for i in 0..8u8 {
                steps.push(Step::Publish(PubSpec::simple(2, 2, 1, i)));
            }
            // PUBREC for all eight: the client answers with PUBRELs and waits for the PUBCOMPs
            steps.push(Step::Broker(BrokerAct::AckAll { reverse: false }));
            steps.push(Step::PollIdle { max: 40 });
            for i in 0..j {
                if kinds[i] {
                    steps.push(Step::Subscribe { filters: vec![(TopicSpec::new(3, i as u8), so)], props: vec![], cancel: None });
                } else {
                    steps.push(Step::Unsubscribe { filters: vec![TopicSpec::new(3, 40 + i as u8), TopicSpec::new(2, i as u8)], props: vec![], cancel: None });
                }
            }
            // some of the oldest SUBSCRIBE/UNSUBSCRIBE requests are acknowledged (holes in the block)
            for _ in 0..acked_subs.min(j.saturating_sub(1)) {
                steps.push(Step::Broker(BrokerAct::Ack { which: (8u32 * 65536 / (8 + j as u32) + 1) as u16, reason: 0, form: AckForm::Short }));
                steps.push(Step::PollIdle { max: 4 });
            }
            let n = (65535i64 - (8 + j as i64) - 1 + off as i64).max(0) as u32;
            steps.push(Step::Burn { n });
            let mut tail: Vec<Step> = Vec::new();
            for i in 0..fresh_ops {
                if (i + j) % 2 == 0 {
                    tail.push(Step::Unsubscribe { filters: vec![TopicSpec::new(3, 90 + i as u8)], props: vec![], cancel: None });
                } else {
                    tail.push(Step::Subscribe { filters: vec![(TopicSpec::new(3, 80 + i as u8), so)], props: vec![], cancel: None });
                }
            }
            tail.push(Step::PollIdle { max: 10 });
            tail.push(Step::Broker(BrokerAct::AckAll { reverse: false }));
            tail.push(Step::PollIdle { max: 40 });
            tail.push(Step::Publish(PubSpec::simple(1, 2, 2, 77)));
            tail.push(Step::Broker(BrokerAct::AckAll { reverse: true }));
            tail.push(Step::PollIdle { max: 40 });
            let connect = ConnectSpec::default();
            let conns = if resume {
                vec![ConnScript { connect: connect.clone(), steps, end: EndHow::Drop }, ConnScript { connect, steps: tail, end: EndHow::Drop }]
            } else {
                steps.extend(tail);
                vec![ConnScript { connect, steps, end: EndHow::Drop }]
            };
            Case { cfg: Cfg { rx: 128, tx: 2048, ..Cfg::default() }, broker: BrokerMode::Scripted, conns }
        })
        .boxed()
}

pub fn run(ctx: &Ctx) -> i32 {
    let cases = ctx.tier.pick(8_000, 300_000);
    let pre = crate::props::scen::replay_saved(ctx, "C07", &|st, _| st.wraps_with_inflight > 0);
    let mut agg = run_prop(ctx, "case", 16, cases, strategy, |case: &Case| {
        let (violations, stats, trace) = eval_case(case);
        let mut classes = Vec::new();
        if stats.wraps > 0 {
            classes.push("counter-wrapped");
        }
        if stats.wraps_with_inflight > 0 {
            classes.push("wrapped-with-operations-in-flight");
        }
        if stats.resumed > 0 {
            classes.push("resumed-reconnect");
        }
        if stats.fresh > 1 {
            classes.push("fresh-session-restart");
        }
        Eval { nontrivial: stats.wraps_with_inflight > 0, classes, violations, watchdog: trace.watchdog }
    });
    // identifiers across connections: rejected / garbled / cancelled handshakes between resumed
    // connections with operations in flight (the broker still holds their identifiers)
    let multi = run_prop(ctx, "case", 16, ctx.tier.pick(60_000, 1_500_000), || cgen::case(&multi_profile()), |case: &Case| {
        let (violations, stats, trace) = eval_case(case);
        let mut classes = Vec::new();
        if stats.resumed_with_inflight > 0 && stats.failed_handshakes > 0 {
            classes.push("failed-handshake-and-resumed-with-inflight");
        }
        Eval { nontrivial: stats.resumed_with_inflight > 0, classes, violations, watchdog: trace.watchdog }
    });
    agg.merge(multi);
    let dense = run_prop(ctx, "case", 16, ctx.tier.pick(2_000, 60_000), dense_block, |case: &Case| {
        let (violations, stats, trace) = eval_case(case);
        let mut classes = vec!["dense-block-of-9-to-15-identifiers-in-use"];
        if stats.wraps_with_inflight > 0 {
            classes.push("wrapped-with-operations-in-flight");
        }
        Eval { nontrivial: stats.wraps_with_inflight > 0, classes, violations, watchdog: trace.watchdog }
    });
    agg.merge(dense);
    let pre_failed = pre.failure.clone();
    agg.merge(pre);
    if pre_failed.is_some() {
        agg.failure = pre_failed;
    }
    finish(
        ctx,
        agg,
        Report {
            level: "exploration",
            rule: "each case: a Receive Maximum of 1-7 filled with long-lived QoS 1/2 publishes (some held between PUBREC and PUBCOMP) plus 0-4 SUBSCRIBE/UNSUBSCRIBE in flight, then a burn of 65535*w + offset identifier allocations (locally refused publishes; w in {1,2}, offset chosen so the counter lands on/around the identifiers still in use), optionally a resumed reconnect or a preceding fresh session, then a generated tail of new operations and acks; oracle = every identifier-bearing outbound packet has id != 0 and id not in the model's in-flight set of the session (QoS 2 until PUBCOMP). Non-trivial = a new identifier is smaller than its predecessor (counter wrapped) while at least one operation is still in flight; distinct = distinct case value. Third generator: all eight publish slots are QoS 2 exchanges waiting for PUBCOMP, 1-7 SUBSCRIBE/UNSUBSCRIBE (outside the publish quota) unacknowledged behind them with holes, i.e. 9-15 identifiers in use in one block, the counter burnt once around onto it, then new SUBSCRIBE/UNSUBSCRIBE requests (same oracle). Second generator: generic histories of 2-6 connections with 30 % rejected / garbled / cut / cancelled handshakes and resumed sessions (non-trivial = a resumed connection with operations in flight), same oracle.".into(),
            assumptions: vec![
                "identifier allocations are observed only through the wire; the burn relies on refused publishes consuming identifiers (if they do not, the non-trivial count drops to zero instead of raising an alarm)".into(),
                "conformant scripted broker".into(),
            ],
        },
    )
}
