//! C15 — behaviour does not depend on how the transport fragments reads and writes.
//!
//! Differential / metamorphic: one program + inbound stream, run with whole reads/writes
//! (reference) and with generated fragmentations; everything observable must be identical.

use crate::cgen::{self, Profile};
use crate::model::Violation;
use crate::runner::*;
use crate::scenario::*;
use crate::trace::*;
use crate::world::run_case;
use proptest::prelude::*;
use serde::{Deserialize, Serialize};

#[derive(Clone, Debug, PartialEq, Eq, Hash, Serialize, Deserialize)]
pub struct Input {
    pub case: Case,
    pub variants: Vec<IoCfg>,
}

#[derive(Clone, Debug, PartialEq)]
pub struct Summary {
    pub deliveries: Vec<Delivered>,
    pub results: Vec<(OpKind, OpRes)>,
    pub samples: Vec<Sample>,
    pub out: Vec<Vec<u8>>,
    pub inb: Vec<Vec<u8>>,
    pub conns: Vec<ConnRes>,
    pub panic: Option<String>,
    pub watchdog: bool,
}

pub fn summarize(t: &Trace) -> Summary {
    let norm = |r: &OpRes| match r {
        OpRes::Blocked { .. } => OpRes::Blocked { awaits: 0 },
        OpRes::Cancelled { .. } => OpRes::Cancelled { awaits: 0 },
        other => other.clone(),
    };
    Summary {
        deliveries: t.deliveries.clone(),
        results: t.ops.iter().map(|o| (o.kind, norm(&o.res))).collect(),
        samples: t.events.iter().filter_map(|e| if let Event::Sample(s) = e { Some(s.clone()) } else { None }).collect(),
        out: t.out.clone(),
        inb: t.inb.clone(),
        conns: t
            .conns
            .iter()
            .map(|c| match c.1 {
                ConnRes::Blocked { .. } => ConnRes::Blocked { awaits: 0 },
                ConnRes::Cancelled { .. } => ConnRes::Cancelled { awaits: 0 },
                o => o,
            })
            .collect(),
        panic: t.panic.clone(),
        watchdog: t.watchdog,
    }
}

fn with_io(case: &Case, io: &IoCfg) -> Case {
    let mut c = case.clone();
    for cs in c.conns.iter_mut() {
        cs.connect.io = io.clone();
        cs.steps.retain(|s| !matches!(s, Step::SetIo(_)));
    }
    c
}

fn profile() -> Profile {
    Profile {
        conns: (1, 3),
        steps: (1, 12),
        handshake_failures: 0,
        cancels: false,
        faults: false,
        partial_io: false,
        pend_first_pct: 0,
        w_setio: 0,
        w_fault: 0,
        w_eof: 0,
        w_disconnect: 1,
        w_server_disconnect: 1,
        w_deliver: 8,
        w_redeliver: 2,
        w_pubrel: 3,
        w_poll: 8,
        w_recv: 2,
        w_pingresp: 3,
        payload_max: 50,
        // run-time dependent broker decisions have no place in a differential check
        shrink_mps_pct: 0,
        lost_pubrecs_pct: 0,
        ..Profile::default()
    }
}

pub fn strategy() -> BoxedStrategy<Input> {
    let p = profile();
    let pio = Profile { partial_io: true, pend_first_pct: 50, ..Profile::default() };
    (cgen::case(&p), prop::collection::vec(cgen::io_cfg(&pio), 2..5))
        .prop_map(|(case, mut variants)| {
            variants.push(IoCfg { read_chunks: vec![1], write_chunks: vec![1], pend_first: true, read_cuts: vec![] });
            variants.push(IoCfg { read_chunks: vec![], write_chunks: vec![1, 2], pend_first: false, read_cuts: vec![] });
            variants.push(IoCfg { read_chunks: vec![2, 1], write_chunks: vec![], pend_first: false, read_cuts: vec![] });
            Input { case, variants }
        })
        .boxed()
}

fn diff(a: &Summary, b: &Summary) -> Option<(&'static str, String)> {
    if b.panic.is_some() {
        return Some(("panic", format!("{:?}", b.panic)));
    }
    if a.inb != b.inb {
        return Some(("inbound-stream", "the broker sent different bytes (the client must have behaved differently)".into()));
    }
    if a.conns != b.conns {
        return Some(("connect-result", format!("{:?} vs {:?}", a.conns, b.conns)));
    }
    if a.deliveries != b.deliveries {
        return Some(("deliveries", format!("{} vs {} deliveries / different contents", a.deliveries.len(), b.deliveries.len())));
    }
    if a.results != b.results {
        let i = a.results.iter().zip(b.results.iter()).position(|(x, y)| x != y).unwrap_or(a.results.len().min(b.results.len()));
        return Some(("operation-results", format!("first difference at op {i}: {:?} vs {:?}", a.results.get(i), b.results.get(i))));
    }
    if a.out != b.out {
        let t = a.out.iter().zip(b.out.iter()).position(|(x, y)| x != y).unwrap_or(0);
        return Some(("outbound-bytes", format!("transport {t}: {:02x?} vs {:02x?}", a.out.get(t).map(|v| &v[..v.len().min(80)]), b.out.get(t).map(|v| &v[..v.len().min(80)]))));
    }
    if a.samples != b.samples {
        return Some(("handle-states", "handle / session predicates differ".into()));
    }
    None
}

pub struct Out {
    pub violations: Vec<Violation>,
    pub write_in_three_pieces: bool,
    pub header_split: bool,
    pub watchdog: bool,
}

pub fn eval(inp: &Input) -> Out {
    let base = with_io(&inp.case, &IoCfg::default());
    let tr0 = run_case(&base);
    let s0 = summarize(&tr0);
    let mut v: Vec<Violation> = Vec::new();
    let mut out = Out { violations: vec![], write_in_three_pieces: false, header_split: false, watchdog: tr0.watchdog };
    if let Some(p) = &tr0.panic {
        v.push(Violation { prop: "PANIC", sig: format!("panic/{}", p.rsplit(" @ ").next().unwrap_or("")), detail: p.clone() });
    }
    for io in &inp.variants {
        let t = run_case(&with_io(&inp.case, io));
        let s = summarize(&t);
        out.watchdog |= t.watchdog;
        // classification
        let mut per_pkt_writes = 0usize;
        let view = crate::view::View::build(&t);
        for p in &view.out {
            let n = t.events[p.ev_first..=p.ev_last].iter().filter(|e| matches!(e, Event::Io(crate::sim::io::IoEvent::Write { tr, .. }) if *tr == p.tr)).count();
            per_pkt_writes = per_pkt_writes.max(n);
        }
        if per_pkt_writes >= 3 {
            out.write_in_three_pieces = true;
        }
        if !io.read_chunks.is_empty() && io.read_chunks.iter().any(|c| *c == 1) || !io.read_cuts.is_empty() {
            out.header_split = true;
        }
        if let Some((what, detail)) = diff(&s0, &s) {
            let sig = format!("C15/differs/{what}");
            if !v.iter().any(|x| x.sig == sig) {
                v.push(Violation { prop: "C15", sig, detail: format!("with {io:?}: {detail}") });
            }
        }
    }
    out.violations = v;
    out
}

/// All 2^(n-1) segmentations of a short inbound stream (CONNACK + QoS 2 PUBLISH, then PUBREL).
pub fn exhaustive_inputs() -> Vec<Input> {
    let case = Case {
        cfg: Cfg { rx: 64, tx: 256, ..Cfg::default() },
        broker: BrokerMode::Scripted,
        conns: vec![ConnScript {
            connect: ConnectSpec::default(),
            steps: vec![
                Step::Broker(BrokerAct::Deliver { qos: 2, retain: false, topic: TopicSpec::new(1, 0), payload: PayloadSpec::new(0, 0), props: vec![], redeliver: None }),
                Step::PollIdle { max: 4 },
                Step::Broker(BrokerAct::PubRel { which: 0, unknown: None }),
                Step::PollIdle { max: 4 },
            ],
            end: EndHow::Drop,
        }],
    };
    // stream: CONNACK (5) + PUBLISH (8) = 13 bytes -> 4096 segmentations, then PUBREL (4) whole
    let n = 13u32;
    let mut out = Vec::new();
    for mask in 0u32..(1 << (n - 1)) {
        let cuts: Vec<u32> = (1..n).filter(|i| mask & (1 << (i - 1)) != 0).collect();
        out.push(Input { case: case.clone(), variants: vec![IoCfg { read_chunks: vec![], write_chunks: vec![], pend_first: mask & 1 == 1, read_cuts: cuts }] });
    }
    // a second stream with the shortest possible packets in the middle:
    // CONNACK (5) + PINGRESP (2) + PUBACK-less QoS 0 PUBLISH (6) + PINGRESP (2) = 15 bytes
    let case2 = Case {
        cfg: Cfg { rx: 64, tx: 256, ..Cfg::default() },
        broker: BrokerMode::Scripted,
        conns: vec![ConnScript {
            connect: ConnectSpec::default(),
            steps: vec![
                Step::Broker(BrokerAct::PingResp),
                Step::Broker(BrokerAct::Deliver { qos: 0, retain: false, topic: TopicSpec::new(1, 0), payload: PayloadSpec::new(0, 0), props: vec![], redeliver: None }),
                Step::Broker(BrokerAct::PingResp),
                Step::PollIdle { max: 6 },
            ],
            end: EndHow::Drop,
        }],
    };
    let n2 = 15u32;
    for mask in 0u32..(1 << (n2 - 1)) {
        let cuts: Vec<u32> = (1..n2).filter(|i| mask & (1 << (i - 1)) != 0).collect();
        out.push(Input { case: case2.clone(), variants: vec![IoCfg { read_chunks: vec![], write_chunks: vec![], pend_first: false, read_cuts: cuts }] });
    }
    out
}

/// Packets longer than 64 KiB whose partial writes / reads end on and around byte 65535 (offsets
/// that no longer fit 16 bits), outbound at every QoS incl. a resumed retransmission, and inbound.
pub fn large_inputs() -> Vec<Input> {
    let mut out = Vec::new();
    let patterns: Vec<Vec<u16>> = vec![vec![65535], vec![65534, 1, 1, 65535], vec![32768], vec![65535, 1, 2], vec![1000, 64535, 1], vec![65530, 3, 3, 3], vec![40000, 25535, 65535]];
    for qos in 0u8..3 {
        for (k, pat) in patterns.iter().enumerate() {
            let publish = Step::Publish(PubSpec { via: (k % 2) as u8, ..PubSpec::simple(qos, 3, 70_000 + k as u32, k as u8) });
            let first = ConnScript {
                connect: ConnectSpec::default(),
                steps: vec![publish, Step::PollIdle { max: 4 }, Step::Publish(PubSpec::simple(1, 2, 3, 7)), Step::PollIdle { max: 4 }],
                end: EndHow::Drop,
            };
            let second = ConnScript {
                connect: ConnectSpec::default(),
                steps: vec![Step::PollIdle { max: 6 }, Step::Broker(BrokerAct::AckAll { reverse: false }), Step::PollIdle { max: 6 }, Step::Broker(BrokerAct::AckAll { reverse: false }), Step::PollIdle { max: 6 }],
                end: EndHow::Drop,
            };
            let case = Case { cfg: Cfg { rx: 256, tx: 160_000, ..Cfg::default() }, broker: BrokerMode::Scripted, conns: vec![first, second] };
            out.push(Input { case, variants: vec![IoCfg { read_chunks: vec![], write_chunks: pat.clone(), pend_first: k % 2 == 1, read_cuts: vec![] }] });
        }
    }
    for (k, pat) in patterns.iter().enumerate() {
        let case = Case {
            cfg: Cfg { rx: 80_000, tx: 1024, ..Cfg::default() },
            broker: BrokerMode::Scripted,
            conns: vec![ConnScript {
                connect: ConnectSpec::default(),
                steps: vec![
                    Step::Broker(BrokerAct::Deliver { qos: (k % 3) as u8, retain: false, topic: TopicSpec::new(3, 1), payload: PayloadSpec::new(70_000 + k as u32, k as u8), props: vec![], redeliver: None }),
                    Step::Broker(BrokerAct::Deliver { qos: 1, retain: false, topic: TopicSpec::new(2, 1), payload: PayloadSpec::new(2, 1), props: vec![], redeliver: None }),
                    Step::PollIdle { max: 8 },
                ],
                end: EndHow::Drop,
            }],
        };
        out.push(Input { case, variants: vec![IoCfg { read_chunks: pat.clone(), write_chunks: vec![], pend_first: k % 2 == 0, read_cuts: vec![] }] });
    }
    out
}

pub fn run(ctx: &Ctx) -> i32 {
    let mut agg = Agg::default();
    // exhaustive segmentations of a short stream
    let ex = exhaustive_inputs();
    let n_ex = ex.len();
    let chunks: Vec<&[Input]> = ex.chunks(n_ex.div_ceil(16)).collect();
    let total = std::sync::Mutex::new(Agg::default());
    std::thread::scope(|sc| {
        for chunk in chunks {
            let total = &total;
            sc.spawn(move || {
                let mut a = Agg::default();
                for inp in chunk {
                    let o = eval(inp);
                    a.record(ctx, "c15-input", inp, Eval { violations: o.violations, nontrivial: true, classes: vec!["exhaustive-segmentation"], watchdog: o.watchdog });
                }
                total.lock().unwrap().merge(a);
            });
        }
    });
    agg.merge(total.into_inner().unwrap());
    let large = large_inputs();
    let n_large = large.len();
    for inp in &large {
        let o = eval(inp);
        agg.record(ctx, "c15-input", inp, Eval { violations: o.violations, nontrivial: true, classes: vec!["packet-above-64KiB-split-around-byte-65535"], watchdog: o.watchdog });
    }
    agg.extra.insert("large_packet_inputs".into(), serde_json::json!(n_large));
    let cases = ctx.tier.pick(40_000, 1_200_000);
    if agg.failure.is_none() {
        agg.merge(run_prop(ctx, "c15-input", 16, cases, strategy, |inp: &Input| {
            let o = eval(inp);
            let mut classes = Vec::new();
            if o.write_in_three_pieces {
                classes.push("write-accepted-in-3+-pieces");
            }
            if o.header_split {
                classes.push("fixed-header-split");
            }
            Eval { nontrivial: o.write_in_three_pieces || o.header_split, violations: o.violations, classes, watchdog: o.watchdog }
        }));
    }
    agg.extra.insert("exhaustive_segmentations_of_13_and_15_byte_streams".into(), serde_json::json!(n_ex));
    finish(
        ctx,
        agg,
        Report {
            level: "exploration",
            rule: "program + scripted/reactive broker generated as in C01 but without cancellations and faults; reference run with whole reads and writes, 5-7 variants per program with generated read chunk patterns (1-byte, alternating, random), partial-write patterns and pend-first scheduling; plus the exhaustive 4096 segmentations of a 13-byte inbound stream (CONNACK + QoS 2 PUBLISH) and the 16384 segmentations of a 15-byte stream containing the shortest packets (CONNACK + PINGRESP + QoS 0 PUBLISH + PINGRESP), incl. every split inside every fixed header; plus 28 programs with a packet above 64 KiB (outbound at QoS 0/1/2 incl. its resumed retransmission, slice and closure payloads; inbound at QoS 0/1/2) whose writes / reads are cut on and around byte 65535. Oracle: delivered messages, every operation result, all sampled handle/session predicates, connect results and the outbound byte stream of each transport are identical to the reference run (and so is the broker's inbound stream). Non-trivial = a variant that splits a fixed header / reads single bytes, or has a packet accepted in >= 3 write pieces; distinct = distinct (program, variants).".into(),
            assumptions: vec!["virtual time is frozen; no cancellations, no transport faults (those are C13 / C11)".into()],
        },
    )
}

pub fn replay(inp: &Input) -> Vec<Violation> {
    eval(inp).violations
}
