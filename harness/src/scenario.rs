//! The scenario DSL: what a generated case looks like. Everything is plain data (serde, Hash) so a
//! shrunk failure can be written to a replay file and re-run without the generator.

use crate::refcodec::{Prop, SubOpts};
use crate::sim::io::Fault;
use crate::trace::EndHow;
use serde::{Deserialize, Serialize};

#[derive(Clone, Debug, PartialEq, Eq, Hash, Serialize, Deserialize)]
pub struct WillCfg {
    pub topic: TopicSpec,
    pub payload: PayloadSpec,
    pub qos: u8,
    pub retain: bool,
    pub props: Vec<Prop>,
}

#[derive(Clone, Debug, PartialEq, Eq, Hash, Serialize, Deserialize)]
pub struct Cfg {
    pub rx: usize,
    pub tx: usize,
    pub client_id: String,
    pub keepalive: u16,
    pub session_expiry: u32,
    pub downgrade: bool,
    pub will: Option<WillCfg>,
    pub auth: Option<(String, Vec<u8>)>,
    /// Executor latency (ticks) added when virtual time jumps to a timer deadline (`PollFor`).
    #[serde(default)]
    pub jitter_us: u64,
    /// Delay (ticks) of the broker's PINGRESP for the 1st, 2nd, … PINGREQ (cyclic); `None` entry =
    /// never answered; empty = no automatic answers.
    #[serde(default)]
    pub ping_delays_us: Vec<Option<u64>>,
    /// The broker announces the planned Maximum Packet Size of every connection even if something
    /// the client retains exceeds it (C14 studies exactly that; everywhere else a smaller limit
    /// is applied only where everything retained still fits).
    #[serde(default)]
    pub unconditional_limits: bool,
}

impl Default for Cfg {
    fn default() -> Self {
        Self {
            rx: 256,
            tx: 1024,
            client_id: "cid".into(),
            keepalive: 0,
            session_expiry: 3600,
            downgrade: false,
            will: None,
            auth: None,
            jitter_us: 0,
            ping_delays_us: vec![],
            unconditional_limits: false,
        }
    }
}

/// Deterministic topic / filter text of an exact byte length.
#[derive(Clone, Copy, Debug, PartialEq, Eq, Hash, Serialize, Deserialize)]
pub struct TopicSpec {
    pub len: u32,
    pub variant: u8,
}

impl TopicSpec {
    pub fn new(len: u32, variant: u8) -> Self {
        Self { len, variant }
    }
    /// A valid topic name (no wildcards, no NUL) of exactly `max(len,1)` bytes.
    pub fn name(&self) -> String {
        let len = self.len.max(1) as usize;
        let mut s = String::with_capacity(len);
        let alphabet = b"abcdefghijklmnopqrstuvwxyz0123456789";
        let mut i = 0usize;
        while s.len() < len {
            let left = len - s.len();
            let k = (i * 7 + self.variant as usize * 13) % 41;
            if k == 40 && left >= 2 && self.variant & 1 == 1 {
                s.push('é'); // 2-byte UTF-8
            } else if k == 39 && left >= 3 && self.variant & 2 == 2 {
                s.push('€'); // 3-byte UTF-8
            } else if i % 5 == 4 && left > 1 && i > 0 {
                s.push('/');
            } else {
                s.push(alphabet[k % alphabet.len()] as char);
            }
            i += 1;
        }
        s
    }
    /// A valid topic filter; some variants carry wildcards.
    pub fn filter(&self) -> String {
        let base = self.name();
        match self.variant % 4 {
            0 | 1 => base,
            2 => {
                // trailing multi-level wildcard, same byte length when possible
                if base.len() >= 3 && base.is_char_boundary(base.len() - 2) {
                    let mut b = base[..base.len() - 2].to_string();
                    if b.ends_with('/') {
                        b.pop();
                        b.push('x');
                    }
                    b.push_str("/#");
                    b
                } else {
                    "#".to_string()
                }
            }
            _ => {
                if base.len() >= 3 && base.is_char_boundary(2) {
                    let mut tail = base[2..].to_string();
                    if tail.starts_with('/') {
                        tail.replace_range(0..1, "y");
                    }
                    format!("+/{}", tail)
                } else {
                    "+".to_string()
                }
            }
        }
    }
}

#[derive(Clone, Copy, Debug, PartialEq, Eq, Hash, Serialize, Deserialize)]
pub struct PayloadSpec {
    pub len: u32,
    pub seed: u8,
}

impl PayloadSpec {
    pub fn new(len: u32, seed: u8) -> Self {
        Self { len, seed }
    }
    pub fn bytes(&self) -> Vec<u8> {
        (0..self.len as usize).map(|i| (self.seed as usize).wrapping_add(i.wrapping_mul(7)) as u8).collect()
    }
}

#[derive(Clone, Debug, PartialEq, Eq, Hash, Serialize, Deserialize, Default)]
pub struct IoCfg {
    /// empty = whole
    pub read_chunks: Vec<u16>,
    pub write_chunks: Vec<u16>,
    pub pend_first: bool,
    /// absolute inbound stream offsets at which a read() must stop (explicit segment boundaries)
    #[serde(default)]
    pub read_cuts: Vec<u32>,
}

#[derive(Clone, Debug, PartialEq, Eq, Hash, Serialize, Deserialize)]
pub enum Handshake {
    /// CONNACK success.
    Accept,
    /// CONNACK with a failure reason code (>= 0x80).
    Reject(u8),
    /// Bytes that are not a valid CONNACK, followed by EOF.
    Garbage(Vec<u8>),
    /// Server DISCONNECT instead of CONNACK.
    ServerDisconnect(u8),
    /// The first `n` bytes of the CONNACK, then EOF.
    EofAfter(u8),
    /// The first `n` bytes of the CONNACK, then silence (connect() is dropped = cancelled).
    StallAfter(u8),
    /// Transport fault at the k-th I/O call of the handshake.
    Fault(Fault),
    /// connect() future dropped at its k-th await point (pend-first mode is forced on).
    CancelAt(u16),
}

#[derive(Clone, Debug, PartialEq, Eq, Hash, Serialize, Deserialize, Default)]
pub struct ConnackProps {
    pub receive_max: Option<u16>,
    pub max_packet: Option<u32>,
    pub max_qos: Option<u8>,
    pub server_keepalive: Option<u16>,
    pub assigned_id: Option<String>,
    /// further legal CONNACK properties (retain available, reason string, user properties …)
    pub extra: Vec<Prop>,
}

#[derive(Clone, Debug, PartialEq, Eq, Hash, Serialize, Deserialize)]
pub struct ConnectSpec {
    pub handshake: Handshake,
    /// Broker answers session-present if it legally can (CONNECT had clean_start=0 and it still
    /// holds the session).
    pub keep_session: bool,
    pub props: ConnackProps,
    pub io: IoCfg,
    /// On a resumed connection the broker behaves as if the PUBRECs the client sent on the previous
    /// connection never reached it (lost with the dead connection): inbound QoS 2 messages still
    /// waiting for PUBREL are retransmitted as DUP PUBLISH instead of being released.
    #[serde(default)]
    pub lost_pubrecs: bool,
}

impl Default for ConnectSpec {
    fn default() -> Self {
        Self { handshake: Handshake::Accept, keep_session: true, props: ConnackProps::default(), io: IoCfg::default(), lost_pubrecs: false }
    }
}

#[derive(Clone, Debug, PartialEq, Eq, Hash, Serialize, Deserialize)]
pub struct PubSpec {
    pub qos: u8,
    pub retain: bool,
    pub topic: TopicSpec,
    pub payload: PayloadSpec,
    pub props: Vec<Prop>,
    pub correlate: Option<Vec<u8>>,
    pub cancel: Option<u16>,
    /// How the payload is handed to `publish`: 0 = byte slice, 1 = a closure that first scribbles
    /// over the whole buffer it is given and then writes the payload, 2 = `&str` (when the payload
    /// is valid UTF-8, else a byte slice), 3 = a closure that scribbles over its buffer and then
    /// fails (the request must be refused with the payload error and leave no trace).
    #[serde(default)]
    pub via: u8,
}

impl PubSpec {
    pub fn simple(qos: u8, topic_len: u32, payload_len: u32, seed: u8) -> Self {
        Self {
            qos,
            retain: false,
            topic: TopicSpec::new(topic_len, seed),
            payload: PayloadSpec::new(payload_len, seed),
            props: vec![],
            correlate: None,
            cancel: None,
            via: 0,
        }
    }
}

#[derive(Clone, Copy, Debug, PartialEq, Eq, Hash, Serialize, Deserialize)]
pub enum AckForm {
    /// packet id only (reason = success implied); used only when reason == 0
    Short,
    Reason,
    ReasonProps,
}

#[derive(Clone, Debug, PartialEq, Eq, Hash, Serialize, Deserialize)]
pub enum BrokerAct {
    /// Send a PUBLISH to the client. `redeliver = Some(k)`: retransmit (DUP=1) the k-th broker
    /// in-flight message instead of a new one.
    Deliver {
        qos: u8,
        retain: bool,
        topic: TopicSpec,
        payload: PayloadSpec,
        props: Vec<Prop>,
        redeliver: Option<u8>,
    },
    /// Acknowledge the `which`-th (monotonically mapped) outstanding client packet.
    Ack { which: u16, reason: u8, form: AckForm },
    /// Acknowledge everything outstanding (in arrival or reverse order) with success.
    AckAll { reverse: bool },
    /// A duplicate of an acknowledgement the broker already sent in this session for an
    /// identifier that is no longer outstanding.
    StaleAck { which: u16 },
    /// PUBREL for the `which`-th broker message waiting for release, or for an unknown id.
    PubRel { which: u16, unknown: Option<u16> },
    PingResp,
    Disconnect { reason: u8 },
    /// Arbitrary bytes (hostile / malformed input profiles only).
    Raw(Vec<u8>),
}

#[derive(Clone, Debug, PartialEq, Eq, Hash, Serialize, Deserialize)]
pub enum Step {
    Publish(PubSpec),
    Subscribe { filters: Vec<(TopicSpec, SubOpts)>, props: Vec<Prop>, cancel: Option<u16> },
    Unsubscribe { filters: Vec<TopicSpec>, props: Vec<Prop>, cancel: Option<u16> },
    Poll { cancel: Option<u16> },
    /// poll() repeatedly until it blocks (at most `max` times).
    PollIdle { max: u16 },
    Recv { cancel: Option<u16> },
    Drive { cancel: Option<u16> },
    Disconnect { reason: Option<u8>, props: Option<Vec<Prop>>, cancel: Option<u16> },
    Broker(BrokerAct),
    SetIo(IoCfg),
    /// Fault at the (current + delta)-th I/O call of this transport.
    FaultAt { delta: u16, eof: bool },
    /// After the queued inbound bytes, the peer closes.
    Eof,
    /// Advance virtual time by `ms`.
    Advance { ms: u32 },
    /// A publish whose payload is sized from the transmit arena: `tx - 8 - slack` bytes, so that the
    /// retained packet (almost) fills the arena.
    PublishFill { qos: u8, slack: u8, seed: u8 },
    /// Switch the broker's behaviour from here on.
    SetBroker(BrokerMode),
    /// The application stays in poll() for `ms` of virtual time (time flows to deadlines/arrivals).
    PollFor { ms: u32 },
    /// A broker PUBLISH that becomes readable `delay_ms` from now.
    DeliverAt {
        delay_ms: u32,
        qos: u8,
        payload: PayloadSpec,
        /// `Some((n, tail_ms))`: only the first `n` bytes (at least 1, at most all but one) become
        /// readable at `delay_ms`, the rest `tail_ms` later (`u32::MAX` = never: the peer stalls
        /// in the middle of a packet).
        #[serde(default)]
        split: Option<(u8, u32)>,
    },
    /// Consume up to `n` packet identifiers cheaply: QoS 1 publishes that the client refuses
    /// locally because its send window / in-flight slots are exhausted (skipped while it can publish).
    Burn { n: u32 },
}

#[derive(Clone, Debug, PartialEq, Eq, Hash, Serialize, Deserialize)]
pub struct ConnScript {
    pub connect: ConnectSpec,
    pub steps: Vec<Step>,
    pub end: EndHow,
}

#[derive(Clone, Copy, Debug, PartialEq, Eq, Hash, Serialize, Deserialize)]
pub enum BrokerMode {
    /// Only the handshake is automatic; every other broker packet is a scripted step.
    Scripted,
    /// The broker immediately acknowledges every complete client packet (and releases QoS 2).
    AutoAck,
}

#[derive(Clone, Debug, PartialEq, Eq, Hash, Serialize, Deserialize)]
pub struct Case {
    pub cfg: Cfg,
    pub broker: BrokerMode,
    pub conns: Vec<ConnScript>,
}

#[cfg(test)]
mod tests {
    use super::*;
    use crate::refcodec::{topic_filter_ok, topic_name_ok};

    #[test]
    fn topics_have_exact_len_and_are_valid() {
        for len in 1..200u32 {
            for v in 0..16u8 {
                let t = TopicSpec::new(len, v);
                let n = t.name();
                assert_eq!(n.len(), len as usize);
                assert!(topic_name_ok(&n), "{n:?}");
                let f = t.filter();
                assert!(topic_filter_ok(&f), "{f:?}");
            }
        }
    }
}
