//! bytes -> `arbitrary::Unstructured` -> scenario case (for the libFuzzer target `fz_scenario`).
//! Mirrors the default proptest profile; every choice consumes fuzzer bytes so that coverage
//! feedback can steer the history.

use crate::refcodec::{Prop, SubOpts};
use crate::scenario::*;
use crate::sim::io::Fault;
use crate::trace::EndHow;
use arbitrary::{Result, Unstructured};

fn chunks(u: &mut Unstructured) -> Result<Vec<u16>> {
    Ok(match u.int_in_range(0..=5)? {
        0 | 1 => vec![],
        2 => vec![1],
        3 => vec![2, 1],
        4 => vec![u.int_in_range(1..=8)?, u.int_in_range(1..=8)?],
        _ => vec![u.int_in_range(1..=40)?],
    })
}

fn take_bytes(u: &mut Unstructured, max: usize) -> Result<Vec<u8>> {
    let n = u.int_in_range(0..=max)?;
    Ok(u.bytes(n)?.to_vec())
}

fn io(u: &mut Unstructured) -> Result<IoCfg> {
    Ok(IoCfg { read_chunks: chunks(u)?, write_chunks: chunks(u)?, pend_first: u.arbitrary()?, read_cuts: vec![] })
}

fn small_str(u: &mut Unstructured) -> Result<String> {
    let n = u.int_in_range(0..=5)?;
    let mut s = String::new();
    for _ in 0..n {
        s.push((b'a' + u.int_in_range(0..=25u8)?) as char);
    }
    Ok(s)
}

fn pub_props(u: &mut Unstructured, inbound: bool) -> Result<Vec<Prop>> {
    let mut out: Vec<Prop> = Vec::new();
    for _ in 0..u.int_in_range(0..=3)? {
        let p = match u.int_in_range(0..=6)? {
            0 => Prop::PayloadFormat(u.int_in_range(0..=1)?),
            1 => Prop::MessageExpiry(u.arbitrary()?),
            2 => Prop::ContentType(small_str(u)?),
            3 => Prop::ResponseTopic(TopicSpec::new(u.int_in_range(1..=9)?, u.arbitrary()?).name()),
            4 => Prop::CorrelationData(take_bytes(u, 5)?),
            5 if inbound => Prop::SubscriptionId(u.int_in_range(1..=268_435_455)?),
            _ => Prop::UserProperty(small_str(u)?, small_str(u)?),
        };
        if matches!(p.id(), 0x26 | 0x0B) || !out.iter().any(|q| q.id() == p.id()) {
            out.push(p);
        }
    }
    Ok(out)
}

fn cancel(u: &mut Unstructured) -> Result<Option<u16>> {
    Ok(if u.ratio(1, 3)? { Some(u.int_in_range(0..=30)?) } else { None })
}

fn step(u: &mut Unstructured) -> Result<Step> {
    Ok(match u.int_in_range(0..=20)? {
        0..=4 => {
            let qos = u.int_in_range(0..=2)?;
            let mut props = pub_props(u, false)?;
            let correlate = if u.ratio(1, 5)? { Some(take_bytes(u, 4)?) } else { None };
            if correlate.is_some() {
                props.retain(|p| p.id() != 0x09);
            }
            Step::Publish(PubSpec {
                qos,
                retain: u.arbitrary()?,
                topic: TopicSpec::new(u.int_in_range(1..=12)?, u.arbitrary()?),
                payload: PayloadSpec::new(u.int_in_range(0..=60)?, u.arbitrary()?),
                props,
                correlate,
                cancel: cancel(u)?,
                via: match u.int_in_range(0..=9)? {
                    7 | 8 => 1,
                    9 => 3,
                    6 => 2,
                    _ => 0,
                },
            })
        }
        5 => {
            let n = u.int_in_range(1..=3)?;
            let mut filters = Vec::new();
            for _ in 0..n {
                filters.push((
                    TopicSpec::new(u.int_in_range(1..=9)?, u.arbitrary()?),
                    SubOpts { qos: u.int_in_range(0..=2)?, no_local: u.arbitrary()?, rap: u.arbitrary()?, retain_handling: u.int_in_range(0..=2)? },
                ));
            }
            Step::Subscribe { filters, props: vec![], cancel: cancel(u)? }
        }
        6 => Step::Unsubscribe { filters: vec![TopicSpec::new(u.int_in_range(1..=9)?, u.arbitrary()?)], props: vec![], cancel: cancel(u)? },
        7 | 8 => Step::Poll { cancel: cancel(u)? },
        9 | 10 => Step::PollIdle { max: 40 },
        11 => Step::Drive { cancel: cancel(u)? },
        12 | 13 => Step::Broker(BrokerAct::Ack {
            which: u.arbitrary()?,
            reason: if u.ratio(1, 6)? { 0x80 | u.arbitrary::<u8>()? } else { 0 },
            form: match u.int_in_range(0..=2)? {
                0 => AckForm::Short,
                1 => AckForm::Reason,
                _ => AckForm::ReasonProps,
            },
        }),
        14 => Step::Broker(BrokerAct::AckAll { reverse: u.arbitrary()? }),
        15 | 16 => Step::Broker(BrokerAct::Deliver {
            qos: u.int_in_range(0..=2)?,
            retain: u.arbitrary()?,
            topic: TopicSpec::new(u.int_in_range(1..=12)?, u.arbitrary()?),
            payload: PayloadSpec::new(u.int_in_range(0..=60)?, u.arbitrary()?),
            props: pub_props(u, true)?,
            redeliver: if u.ratio(1, 5)? { Some(u.arbitrary()?) } else { None },
        }),
        17 => Step::Broker(BrokerAct::PubRel { which: u.arbitrary()?, unknown: if u.ratio(1, 6)? { Some(u.int_in_range(1..=30)?) } else { None } }),
        18 => match u.int_in_range(0..=3)? {
            0 => Step::FaultAt { delta: u.int_in_range(0..=8)?, eof: u.arbitrary()? },
            1 => Step::Eof,
            2 => Step::Broker(BrokerAct::Disconnect { reason: 0x8B }),
            _ => Step::Broker(BrokerAct::StaleAck { which: u.arbitrary()? }),
        },
        19 => Step::SetIo(io(u)?),
        _ => Step::Disconnect { reason: None, props: None, cancel: cancel(u)? },
    })
}

fn handshake(u: &mut Unstructured) -> Result<Handshake> {
    if !u.ratio(1, 8)? {
        return Ok(Handshake::Accept);
    }
    Ok(match u.int_in_range(0..=7)? {
        0 => Handshake::Reject(u.int_in_range(0x80..=0xA2)?),
        1 => Handshake::Garbage({
            let mut b = take_bytes(u, 7)?;
            b.push(0x20);
            // never a CONNACK the client might accept (the broker model would not know that session)
            if b[0] == 0x20 {
                b[0] = 0x21;
            }
            b
        }),
        2 => Handshake::ServerDisconnect(0x89),
        3 => Handshake::EofAfter(u.int_in_range(0..=5)?),
        4 => Handshake::StallAfter(u.int_in_range(0..=5)?),
        5 => Handshake::Fault(Fault { at_call: u.int_in_range(0..=4)?, eof: u.arbitrary()? }),
        _ => Handshake::CancelAt(u.int_in_range(0..=11)?),
    })
}

pub fn case(u: &mut Unstructured) -> Result<Case> {
    let rx = u.int_in_range(64..=300)?;
    let tx = u.int_in_range(40..=1200)?;
    let auto = u.ratio(3, 10)?;
    let rm = *u.choose(&[None, None, Some(1u16), Some(2), Some(3), Some(5), Some(8), Some(20), Some(65535)])?;
    let nconn = u.int_in_range(1..=4)?;
    let mut conns = Vec::new();
    for _ in 0..nconn {
        let connect = ConnectSpec {
            handshake: handshake(u)?,
            keep_session: u.ratio(4, 5)?,
            props: ConnackProps { receive_max: rm, ..ConnackProps::default() },
            io: io(u)?,
            lost_pubrecs: u.ratio(1, 4)?,
        };
        let n = u.int_in_range(0..=14)?;
        let mut steps = Vec::new();
        for _ in 0..n {
            steps.push(step(u)?);
        }
        let end = match u.int_in_range(0..=9)? {
            0 => EndHow::Forget,
            1 => EndHow::IntoInner,
            _ => EndHow::Drop,
        };
        conns.push(ConnScript { connect, steps, end });
    }
    // Drawn last, so that inputs saved before these dimensions existed keep their meaning (an
    // exhausted input yields the old constant values).
    if u.ratio(1, 4)? {
        for c in conns.iter_mut().skip(1) {
            c.connect.props.receive_max = *u.choose(&[None, Some(1u16), Some(2), Some(3), Some(8), Some(65535)])?;
        }
    }
    let mq = *u.choose(&[None, None, None, Some(0u8), Some(1)])?;
    for c in conns.iter_mut() {
        c.connect.props.max_qos = mq;
    }
    let downgrade = u.ratio(1, 3)?;
    let session_expiry = *u.choose(&[3600u32, 3600, 3600, 0, 1, u32::MAX])?;
    if u.ratio(1, 5)? {
        // planned smaller Maximum Packet Size on later connections (the broker model applies it
        // only where everything the client may retain fits)
        for c in conns.iter_mut().skip(1) {
            if u.arbitrary()? {
                c.connect.props.max_packet = Some(*u.choose(&[5u32, 6, 8, 20])?);
            }
        }
    }
    if u.ratio(1, 10)? {
        // a well-framed success CONNACK that the client rejects while reading its properties
        let i = u.int_in_range(0..=conns.len() - 1)?;
        let bytes: &[u8] = *u.choose(&[
            &[0x20u8, 0x06, 0x00, 0x00, 0x03, 0x21, 0x00, 0x00][..],
            &[0x20, 0x05, 0x00, 0x00, 0x02, 0x24, 0x03][..],
            &[0x20, 0x06, 0x01, 0x00, 0x03, 0x21, 0x00, 0x00][..],
            &[0x20, 0x05, 0x01, 0x00, 0x02, 0x24, 0x03][..],
        ])?;
        conns[i].connect.handshake = Handshake::Garbage(bytes.to_vec());
    }
    Ok(Case { cfg: Cfg { rx, tx, downgrade, session_expiry, ..Cfg::default() }, broker: if auto { BrokerMode::AutoAck } else { BrokerMode::Scripted }, conns })
}
