//! Event log produced by one interpreted case, plus the normalised result types.

use crate::refcodec::{Packet, Prop};
use crate::sim::io::IoEvent;
use serde::{Deserialize, Serialize};
use std::cell::RefCell;
use std::rc::Rc;

pub type Log = Rc<RefCell<Vec<Event>>>;

#[derive(Clone, Copy, Debug, PartialEq, Eq, Hash, Serialize, Deserialize)]
pub enum ErrKind {
    NotReady,
    Disconnected,
    InvalidRequest,
    Rejected(u8),
    InvalidPacket,
    BufferTooSmall,
    PacketTooLarge,
    InflightExhausted,
    Transport,
    WriteZero,
    Payload,
}

impl ErrKind {
    pub fn from_err<E>(e: &minimq::Error<E>) -> Self {
        use minimq::{Error, PeerError, ResourceError};
        match e {
            Error::NotReady => ErrKind::NotReady,
            Error::Disconnected => ErrKind::Disconnected,
            Error::InvalidRequest => ErrKind::InvalidRequest,
            Error::Peer(PeerError::Rejected(c)) => ErrKind::Rejected((*c).into()),
            Error::Peer(PeerError::InvalidPacket) => ErrKind::InvalidPacket,
            Error::Peer(_) => ErrKind::InvalidPacket,
            Error::Resource(ResourceError::BufferTooSmall) => ErrKind::BufferTooSmall,
            Error::Resource(ResourceError::PacketTooLarge) => ErrKind::PacketTooLarge,
            Error::Resource(ResourceError::InflightExhausted) => ErrKind::InflightExhausted,
            Error::Resource(_) => ErrKind::BufferTooSmall,
            Error::Transport(_) => ErrKind::Transport,
            Error::WriteZero => ErrKind::WriteZero,
            _ => ErrKind::Transport,
        }
    }
    pub fn from_pub<P, E>(e: &minimq::PubError<P, E>) -> Self {
        match e {
            minimq::PubError::Session(e) => Self::from_err(e),
            minimq::PubError::Payload(_) => ErrKind::Payload,
        }
    }
}

#[derive(Clone, Debug, PartialEq, Eq, Hash, Serialize, Deserialize)]
pub struct Delivered {
    pub topic: String,
    pub payload: Vec<u8>,
    pub qos: u8,
    pub retain: bool,
    /// `Err(())` entries are properties the client's lazy iterator reported as malformed.
    pub props: Vec<Result<Prop, ()>>,
    pub response_topic: Option<String>,
    pub correlation_data: Option<Vec<u8>>,
}

#[derive(Clone, Debug, PartialEq, Eq, Hash, Serialize, Deserialize)]
pub enum OpRes {
    /// Operation completed `Ok` without a handle / message.
    Ok,
    /// `Ok(Some(handle))`, index into `Trace::handles`.
    Handle(usize),
    /// poll/recv/drive returned a message (index into `Trace::deliveries`).
    Message(usize),
    Err(ErrKind),
    Cancelled { awaits: u32 },
    Blocked { awaits: u32 },
    Watchdog,
}

impl OpRes {
    pub fn is_done_ok(&self) -> bool {
        matches!(self, OpRes::Ok | OpRes::Handle(_) | OpRes::Message(_))
    }
}

#[derive(Clone, Copy, Debug, PartialEq, Eq, Hash, Serialize, Deserialize)]
pub enum OpKind {
    Publish,
    Subscribe,
    Unsubscribe,
    Poll,
    Recv,
    Drive,
    Disconnect,
}

#[derive(Clone, Copy, Debug, PartialEq, Eq, Hash, Serialize, Deserialize)]
pub enum ConnRes {
    Connected,
    Reconnected,
    Err(ErrKind),
    Cancelled { awaits: u32 },
    Blocked { awaits: u32 },
    Watchdog,
}

impl ConnRes {
    pub fn is_ok(&self) -> bool {
        matches!(self, ConnRes::Connected | ConnRes::Reconnected)
    }
}

#[derive(Clone, Copy, Debug, PartialEq, Eq, Hash, Serialize, Deserialize)]
pub enum HStatus {
    Pending,
    Complete,
    Invalidated,
    /// The three predicates were not mutually exclusive (bitmask p|c<<1|i<<2).
    Inconsistent(u8),
}

#[derive(Clone, Debug, PartialEq, Eq, Hash, Serialize, Deserialize)]
pub struct Sample {
    /// `None` when no connection handle exists (queried through the session).
    pub connected: Option<bool>,
    pub can_publish: Option<[bool; 3]>,
    pub quiescent: bool,
    pub handles: Vec<HStatus>,
}

#[derive(Clone, Copy, Debug, PartialEq, Eq, Hash, Serialize, Deserialize)]
pub enum EndHow {
    Drop,
    Forget,
    IntoInner,
}

#[derive(Clone, Debug, PartialEq, Eq)]
pub enum Event {
    Io(IoEvent),
    /// `connect()` is about to be called on a new transport. `conn` = index of the ConnScript.
    ConnStart { tr: usize, conn: usize },
    ConnEnd { tr: usize, res: ConnRes },
    /// `step` = (connection script index, step index).
    OpStart { tr: usize, step: (usize, usize), kind: OpKind, op: usize },
    OpEnd { tr: usize, op: usize, res: OpRes },
    /// An op was given a request that the model records (`Trace::requests[req]`).
    Delivery { tr: usize, op: usize, msg: usize },
    HandleEnd { tr: usize, how: EndHow },
    /// The broker queued `inbound[off..off+len]` on transport `tr` (`Trace::inbound[idx]`).
    Queued { tr: usize, idx: usize },
    Sample(Sample),
    Advance { to: u64 },
    /// `n` locally refused publishes were issued (identifier burn)
    Burn { n: u32 },
}

impl From<IoEvent> for Event {
    fn from(e: IoEvent) -> Self {
        Event::Io(e)
    }
}

/// A request the application made (reference form; `pid` fields are placeholders).
#[derive(Clone, Debug, PartialEq, Eq)]
pub struct Request {
    pub op: usize,
    pub kind: OpKind,
    /// Reference packet with packet id 0 / `None` (filled in by monitors from the wire).
    pub packet: Option<Packet>,
    /// QoS as requested (before any downgrade).
    pub qos: u8,
}

#[derive(Clone, Debug)]
pub struct InPkt {
    pub tr: usize,
    pub off: usize,
    pub len: usize,
    /// `None` for raw garbage.
    pub packet: Option<Packet>,
    pub bytes: Vec<u8>,
    /// virtual time at which the bytes become readable
    pub at: u64,
}

#[derive(Clone, Debug)]
pub struct OpRec {
    pub tr: usize,
    pub step: (usize, usize),
    pub kind: OpKind,
    pub res: OpRes,
    pub request: Option<usize>,
    /// io touches before / after the op on its transport
    pub touches: (u64, u64),
    pub polls: u32,
    pub busy_repolls: u32,
    pub io_calls: (u64, u64),
    pub t: (u64, u64),
}

#[derive(Clone, Debug, Default)]
pub struct Trace {
    pub events: Vec<Event>,
    /// Outbound bytes per transport.
    pub out: Vec<Vec<u8>>,
    /// Inbound bytes per transport (everything queued, consumed or not).
    pub inb: Vec<Vec<u8>>,
    pub inbound: Vec<InPkt>,
    pub ops: Vec<OpRec>,
    pub requests: Vec<Request>,
    pub deliveries: Vec<Delivered>,
    /// op index that produced handle i
    pub handles: Vec<usize>,
    /// `Debug` rendering of handle i (shows the operation kind)
    pub handle_debug: Vec<String>,
    pub conns: Vec<(usize, ConnRes)>,
    /// A panic inside the client (message), if any.
    pub panic: Option<String>,
    pub watchdog: bool,
    /// (applied, withheld) planned reductions of the broker's Maximum Packet Size on resumed connections
    pub mps_shrinks: (u32, u32),
    pub now_calls: u64,
    /// `Will::new` / `ConfigBuilder` refused the configuration
    pub config_error: Option<String>,
}

impl Trace {
    /// Maximum Packet Size the broker announced in the CONNACK of transport `tr` (the planned
    /// value may have been withheld, see `Broker::effective_max_packet`).
    pub fn announced_max_packet(&self, tr: usize) -> Option<u32> {
        self.inbound.iter().filter(|p| p.tr == tr).find_map(|p| match &p.packet {
            Some(crate::refcodec::Packet::ConnAck { props, .. }) => Some(props.iter().find_map(|q| if let crate::refcodec::Prop::MaximumPacketSize(v) = q { Some(*v) } else { None })),
            _ => None,
        })?
    }
}
