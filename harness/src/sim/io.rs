//! Simulated transport: generated read fragmentation, partial writes, addressable await points,
//! injected faults, complete observation of everything the client does to the transport.

use super::clock;
use crate::trace::Log;
use embedded_io_async::{ErrorKind, ErrorType, Read, Write};
use std::cell::RefCell;
use std::future::poll_fn;
use std::rc::Rc;
use std::task::Poll;

/// Outbound bytes one transport may accept before the case is aborted as a runaway.
pub const OUT_BUDGET: usize = 24 << 20;

/// Write calls one transport may see before the case is aborted as a runaway (the longest legitimate
/// case writes a 100 000 byte packet in single bytes with pend-first scheduling). A runaway client
/// that emits millions of tiny packets would otherwise cost gigabytes in the event log and the view.
pub const WRITE_BUDGET: u64 = 400_000;

pub const WATCHDOG_MSG: &str = "HARNESS-WATCHDOG: count-based budget (transport polls / clock reads) exhausted";

#[derive(Clone, Debug, PartialEq, Eq)]
pub enum IoEvent {
    /// `n` bytes accepted by `write` (they are `out[off..off+n]`).
    Write { tr: usize, off: usize, n: usize, t: u64 },
    /// `n` bytes handed out by `read` (they are `inbound[off..off+n]`).
    Read { tr: usize, off: usize, n: usize, t: u64 },
    Flush { tr: usize, t: u64 },
    /// An injected fault was returned to the client.
    Fault { tr: usize, kind: FaultKind, t: u64 },
}

#[derive(Clone, Copy, Debug, PartialEq, Eq, Hash, serde::Serialize, serde::Deserialize)]
pub enum FaultKind {
    ReadErr,
    ReadEof,
    WriteErr,
    FlushErr,
}

#[derive(Clone, Debug)]
pub struct Chunker {
    pub pattern: Vec<u16>,
    pub idx: usize,
}

impl Chunker {
    pub fn whole() -> Self {
        Self { pattern: vec![u16::MAX], idx: 0 }
    }
    pub fn new(pattern: Vec<u16>) -> Self {
        if pattern.is_empty() { Self::whole() } else { Self { pattern, idx: 0 } }
    }
    fn next(&mut self, max: usize) -> usize {
        let p = self.pattern[self.idx % self.pattern.len()] as usize;
        self.idx += 1;
        p.max(1).min(max)
    }
}

#[derive(Clone, Copy, Debug, PartialEq, Eq)]
pub enum PendingWhy {
    None,
    /// "pend-first" mode: the call will complete at the next poll.
    Armed,
    /// A read found no inbound data available.
    NoData,
}

/// What to do with the k-th I/O call (0-based, counted over completed read/write/flush calls on this
/// transport).
#[derive(Clone, Copy, Debug, PartialEq, Eq, Hash, serde::Serialize, serde::Deserialize)]
pub struct Fault {
    pub at_call: u32,
    /// When the call is a read: `true` = EOF (`Ok(0)`), `false` = `Err`.
    pub eof: bool,
}

pub struct Transport {
    pub id: usize,
    pub inbound: Vec<u8>,
    pub in_pos: usize,
    /// Inbound bytes `[in_pos..in_avail)` can be read now; `[in_avail..]` are scheduled.
    pub in_avail: usize,
    /// (virtual time, new `in_avail`) — sorted by time.
    pub scheduled: Vec<(u64, usize)>,
    last_sched: u64,
    /// Once all available inbound bytes are consumed, `read` returns `Ok(0)`.
    pub eof: bool,
    pub out: Vec<u8>,
    pub read_chunks: Chunker,
    /// absolute inbound offsets no single read() crosses
    pub read_cuts: Vec<usize>,
    pub write_chunks: Chunker,
    /// Every I/O call first returns `Pending` once (makes each call an addressable await point).
    pub pend_first: bool,
    armed: bool,
    pub faults: Vec<Fault>,
    /// Completed I/O calls (Ready results), all kinds.
    pub io_calls: u64,
    pub n_read: u64,
    pub n_write: u64,
    pub n_flush: u64,
    /// Every poll of any I/O future, completed or not.
    pub touches: u64,
    /// Count-based watchdog: the case is aborted when one transport sees this many I/O polls.
    pub budget: u64,
    pub last_pending: PendingWhy,
    pub events: Log,
}

impl Transport {
    pub fn new(id: usize, events: Log) -> Self {
        Self {
            id,
            inbound: Vec::new(),
            in_pos: 0,
            in_avail: 0,
            scheduled: Vec::new(),
            last_sched: 0,
            eof: false,
            out: Vec::new(),
            read_chunks: Chunker::whole(),
            read_cuts: Vec::new(),
            write_chunks: Chunker::whole(),
            pend_first: false,
            armed: false,
            faults: Vec::new(),
            io_calls: 0,
            n_read: 0,
            n_write: 0,
            n_flush: 0,
            touches: 0,
            budget: 2_000_000,
            last_pending: PendingWhy::None,
            events,
        }
    }

    /// Queue bytes that are readable immediately.
    pub fn push_inbound(&mut self, bytes: &[u8]) {
        self.push_inbound_at(clock::now(), bytes);
        self.release_due();
    }

    /// Queue bytes that become readable at virtual time `at` (never earlier than bytes queued
    /// before them: one ordered byte stream). Returns the effective arrival time.
    pub fn push_inbound_at(&mut self, at: u64, bytes: &[u8]) -> u64 {
        let at = at.max(self.last_sched);
        self.last_sched = at;
        self.inbound.extend_from_slice(bytes);
        let upto = self.inbound.len();
        self.scheduled.push((at, upto));
        at
    }

    /// Make scheduled bytes whose time has come available. Returns the next arrival time, if any.
    pub fn release_due(&mut self) -> Option<u64> {
        let now = clock::now();
        while let Some(&(t, upto)) = self.scheduled.first() {
            if t <= now {
                self.in_avail = self.in_avail.max(upto);
                self.scheduled.remove(0);
            } else {
                return Some(t);
            }
        }
        None
    }

    /// A dropped (cancelled) I/O future must not leave the pend-first latch set.
    pub fn disarm(&mut self) {
        self.armed = false;
        self.last_pending = PendingWhy::None;
    }

    fn check_budget(&self) {
        if self.touches > self.budget {
            panic!("{}", WATCHDOG_MSG);
        }
    }

    fn take_fault(&mut self) -> Option<Fault> {
        let k = self.io_calls as u32;
        if let Some(i) = self.faults.iter().position(|f| f.at_call == k) {
            Some(self.faults.remove(i))
        } else {
            None
        }
    }

    fn gate(&mut self) -> bool {
        // returns true when the call must return Pending now
        if self.pend_first {
            if !self.armed {
                self.armed = true;
                self.last_pending = PendingWhy::Armed;
                return true;
            }
            self.armed = false;
        }
        false
    }
}

#[derive(Clone)]
pub struct SimIo {
    pub st: Rc<RefCell<Transport>>,
}

impl SimIo {
    pub fn new(t: Transport) -> (Self, Rc<RefCell<Transport>>) {
        let st = Rc::new(RefCell::new(t));
        (Self { st: st.clone() }, st)
    }
}

impl ErrorType for SimIo {
    type Error = ErrorKind;
}

impl Read for SimIo {
    async fn read(&mut self, buf: &mut [u8]) -> Result<usize, Self::Error> {
        poll_fn(|_cx| {
            let mut s = self.st.borrow_mut();
            s.touches += 1;
            s.check_budget();
            s.last_pending = PendingWhy::None;
            s.release_due();
            if buf.is_empty() {
                return Poll::Ready(Ok(0));
            }
            // A read with nothing to deliver and no fault scheduled stays pending (no latch use).
            let k = s.io_calls as u32;
            let fault_due = s.faults.iter().any(|f| f.at_call == k);
            let avail = s.in_avail - s.in_pos;
            if !fault_due && avail == 0 && !s.eof {
                s.last_pending = PendingWhy::NoData;
                return Poll::Pending;
            }
            if s.gate() {
                return Poll::Pending;
            }
            let now = clock::now();
            let id = s.id;
            if let Some(f) = s.take_fault() {
                s.io_calls += 1;
                s.n_read += 1;
                let kind = if f.eof { FaultKind::ReadEof } else { FaultKind::ReadErr };
                s.events.borrow_mut().push(IoEvent::Fault { tr: id, kind, t: now }.into());
                return Poll::Ready(if f.eof { Ok(0) } else { Err(ErrorKind::ConnectionReset) });
            }
            if avail == 0 {
                // eof
                s.io_calls += 1;
                s.n_read += 1;
                s.events.borrow_mut().push(IoEvent::Fault { tr: id, kind: FaultKind::ReadEof, t: now }.into());
                return Poll::Ready(Ok(0));
            }
            let mut lim = avail.min(buf.len());
            let pos = s.in_pos;
            if let Some(c) = s.read_cuts.iter().find(|c| **c > pos) {
                lim = lim.min(*c - pos);
            }
            let n = s.read_chunks.next(lim);
            let off = s.in_pos;
            buf[..n].copy_from_slice(&s.inbound[off..off + n]);
            s.in_pos += n;
            s.io_calls += 1;
            s.n_read += 1;
            s.events.borrow_mut().push(IoEvent::Read { tr: id, off, n, t: now }.into());
            Poll::Ready(Ok(n))
        })
        .await
    }
}

impl Write for SimIo {
    async fn write(&mut self, buf: &[u8]) -> Result<usize, Self::Error> {
        poll_fn(|_cx| {
            let mut s = self.st.borrow_mut();
            s.touches += 1;
            s.check_budget();
            s.last_pending = PendingWhy::None;
            if buf.is_empty() {
                return Poll::Ready(Ok(0));
            }
            if s.gate() {
                return Poll::Pending;
            }
            let now = clock::now();
            let id = s.id;
            if s.take_fault().is_some() {
                s.io_calls += 1;
                s.n_write += 1;
                s.events.borrow_mut().push(IoEvent::Fault { tr: id, kind: FaultKind::WriteErr, t: now }.into());
                return Poll::Ready(Err(ErrorKind::BrokenPipe));
            }
            let n = s.write_chunks.next(buf.len());
            let off = s.out.len();
            if off > OUT_BUDGET || s.n_write > WRITE_BUDGET {
                panic!("{}", WATCHDOG_MSG);
            }
            s.out.extend_from_slice(&buf[..n]);
            s.io_calls += 1;
            s.n_write += 1;
            s.events.borrow_mut().push(IoEvent::Write { tr: id, off, n, t: now }.into());
            Poll::Ready(Ok(n))
        })
        .await
    }

    async fn flush(&mut self) -> Result<(), Self::Error> {
        poll_fn(|_cx| {
            let mut s = self.st.borrow_mut();
            s.touches += 1;
            s.check_budget();
            s.last_pending = PendingWhy::None;
            if s.gate() {
                return Poll::Pending;
            }
            let now = clock::now();
            let id = s.id;
            if s.take_fault().is_some() {
                s.io_calls += 1;
                s.n_flush += 1;
                s.events.borrow_mut().push(IoEvent::Fault { tr: id, kind: FaultKind::FlushErr, t: now }.into());
                return Poll::Ready(Err(ErrorKind::BrokenPipe));
            }
            s.io_calls += 1;
            s.n_flush += 1;
            s.events.borrow_mut().push(IoEvent::Flush { tr: id, t: now }.into());
            Poll::Ready(Ok(()))
        })
        .await
    }
}
