//! Thread-local virtual clock that backs `embassy-time` for the whole harness process.
//!
//! The harness crate *is* the time driver: `Instant::now()` inside minimq reads `NOW`, and every
//! `Timer` that returns `Pending` tells us (through `schedule_wake`) which deadline it waits for.
//! Nothing in a property ever reads the wall clock.

use core::task::Waker;
use std::cell::Cell;

thread_local! {
    static NOW: Cell<u64> = const { Cell::new(0) };
    static WAKE_AT: Cell<Option<u64>> = const { Cell::new(None) };
    static NOW_CALLS: Cell<u64> = const { Cell::new(0) };
}

struct VirtualDriver;

impl embassy_time_driver::Driver for VirtualDriver {
    fn now(&self) -> u64 {
        let calls = NOW_CALLS.with(|c| {
            c.set(c.get() + 1);
            c.get()
        });
        if calls > NOW_BUDGET {
            // count-based watchdog: the client keeps spinning without ever waiting
            NOW_CALLS.with(|c| c.set(0));
            panic!("{}", crate::sim::io::WATCHDOG_MSG);
        }
        NOW.with(|n| n.get())
    }

    fn schedule_wake(&self, at: u64, _waker: &Waker) {
        WAKE_AT.with(|w| {
            let next = match w.get() {
                Some(cur) => cur.min(at),
                None => at,
            };
            w.set(Some(next));
        });
    }
}

embassy_time_driver::time_driver_impl!(static DRIVER: VirtualDriver = VirtualDriver);

/// `Instant::now()` calls allowed per case before the watchdog aborts it.
pub const NOW_BUDGET: u64 = 40_000_000;

/// Microsecond ticks.
pub const TICKS_PER_MS: u64 = 1_000;
pub const TICKS_PER_S: u64 = 1_000_000;

pub fn reset() {
    NOW.with(|n| n.set(0));
    WAKE_AT.with(|w| w.set(None));
    NOW_CALLS.with(|c| c.set(0));
}

pub fn now() -> u64 {
    NOW.with(|n| n.get())
}

pub fn set(t: u64) {
    NOW.with(|n| n.set(t));
}

pub fn advance(dt: u64) {
    NOW.with(|n| n.set(n.get().saturating_add(dt)));
}

/// Earliest deadline requested by any timer since the last `take_wake`.
pub fn take_wake() -> Option<u64> {
    WAKE_AT.with(|w| w.take())
}

pub fn now_calls() -> u64 {
    NOW_CALLS.with(|c| c.get())
}
