//! Hand-rolled single-future executor. The harness owns the schedule: it decides after every
//! `Pending` whether to re-poll, advance virtual time, or drop (cancel) the future.

use super::clock;
use super::io::{PendingWhy, Transport};
use std::cell::RefCell;
use std::future::Future;
use std::pin::pin;
use std::rc::Rc;
use std::task::{Context, Poll, Waker};

#[derive(Debug)]
pub enum Outcome<T> {
    Done(T),
    /// Dropped on request at the n-th `Pending` (1-based).
    Cancelled { awaits: u32 },
    /// The future waits for input or a deadline the scenario does not provide; it was dropped.
    Blocked { awaits: u32 },
    /// Count-based watchdog expired (too many polls): the future was dropped.
    Watchdog { polls: u32 },
}

#[derive(Clone, Copy, Debug, PartialEq, Eq)]
pub enum TimePolicy {
    /// Virtual time only moves through explicit scenario steps.
    Frozen,
    /// Jump to the earliest timer deadline / scheduled inbound arrival, plus `jitter` ticks of
    /// executor latency when the target is a timer deadline. Never beyond `horizon`.
    Flow { jitter: u64, horizon: u64 },
}

pub struct RunCtl<'a> {
    pub tr: &'a Rc<RefCell<Transport>>,
    pub cancel_at: Option<u32>,
    pub time: TimePolicy,
    pub max_polls: u32,
    /// Called after every `Pending` (reactive broker pump etc.). Returns true if it made new input
    /// available.
    pub on_pending: Option<&'a mut dyn FnMut() -> bool>,
    /// out: number of hot re-polls with an already expired deadline (busy-wait events)
    pub busy_repolls: u32,
    pub polls: u32,
    /// Only cancel while the operation has not had any byte accepted by the transport.
    pub cancel_only_before_bytes: bool,
    pub cancel_suppressed: bool,
}

impl<'a> RunCtl<'a> {
    pub fn new(tr: &'a Rc<RefCell<Transport>>) -> Self {
        Self {
            tr,
            cancel_at: None,
            time: TimePolicy::Frozen,
            max_polls: 6_000_000,
            on_pending: None,
            busy_repolls: 0,
            polls: 0,
            cancel_only_before_bytes: false,
            cancel_suppressed: false,
        }
    }
}

pub fn run<F: Future>(fut: F, ctl: &mut RunCtl<'_>) -> Outcome<F::Output> {
    let mut fut = pin!(fut);
    let mut cx = Context::from_waker(Waker::noop());
    let mut awaits = 0u32;
    let mut hot = 0u32;
    let out_len0 = ctl.tr.borrow().out.len();
    loop {
        clock::take_wake();
        ctl.polls += 1;
        if ctl.polls > ctl.max_polls {
            ctl.tr.borrow_mut().disarm();
            return Outcome::Watchdog { polls: ctl.polls };
        }
        match fut.as_mut().poll(&mut cx) {
            Poll::Ready(v) => return Outcome::Done(v),
            Poll::Pending => {}
        }
        awaits += 1;
        if ctl.cancel_at == Some(awaits) {
            if ctl.cancel_only_before_bytes && ctl.tr.borrow().out.len() != out_len0 {
                ctl.cancel_suppressed = true;
            } else {
                ctl.tr.borrow_mut().disarm();
                return Outcome::Cancelled { awaits };
            }
        }
        let fed = match ctl.on_pending.as_mut() {
            Some(f) => f(),
            None => false,
        };
        let why = ctl.tr.borrow().last_pending;
        if why == PendingWhy::Armed || fed {
            continue;
        }
        let wake = clock::take_wake();
        let arrival = ctl.tr.borrow_mut().release_due();
        {
            let t = ctl.tr.borrow();
            if t.in_avail > t.in_pos && why == PendingWhy::NoData {
                // data was released by release_due
                continue;
            }
        }
        match ctl.time {
            TimePolicy::Frozen => {
                ctl.tr.borrow_mut().disarm();
                return Outcome::Blocked { awaits };
            }
            TimePolicy::Flow { jitter, horizon } => {
                let now = clock::now();
                let target = match (wake, arrival) {
                    (Some(w), Some(a)) => Some((w.min(a), w <= a)),
                    (Some(w), None) => Some((w, true)),
                    (None, Some(a)) => Some((a, false)),
                    (None, None) => None,
                };
                let Some((target, is_timer)) = target else {
                    ctl.tr.borrow_mut().disarm();
                    return Outcome::Blocked { awaits };
                };
                if target <= now {
                    // expired deadline that the future keeps re-arming: cooperative busy wait
                    hot += 1;
                    ctl.busy_repolls += 1;
                    if hot >= 3 {
                        hot = 0;
                        if now >= horizon {
                            ctl.tr.borrow_mut().disarm();
                            return Outcome::Blocked { awaits };
                        }
                        // real time passes while an executor spins
                        let step = match arrival {
                            Some(a) if a > now => (a - now).min(clock::TICKS_PER_MS),
                            _ => clock::TICKS_PER_MS,
                        };
                        clock::advance(step);
                        ctl.tr.borrow_mut().release_due();
                    }
                    continue;
                }
                hot = 0;
                let mut t = target;
                if is_timer {
                    t = t.saturating_add(jitter);
                    if let Some(a) = arrival {
                        // never jump over an inbound arrival
                        t = t.min(a.max(target));
                    }
                }
                if t > horizon {
                    clock::set(horizon.max(now));
                    ctl.tr.borrow_mut().release_due();
                    ctl.tr.borrow_mut().disarm();
                    return Outcome::Blocked { awaits };
                }
                clock::set(t);
                ctl.tr.borrow_mut().release_due();
            }
        }
    }
}
