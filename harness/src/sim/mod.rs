pub mod clock;
pub mod exec;
pub mod io;
