//! Post-processing of a `Trace`: outbound streams parsed into packets, inbound packets with the
//! point at which the client consumed them, everything merged into one totally ordered timeline.

use crate::refcodec::{Anomaly, Fatal, Packet, StreamParser};
use crate::sim::io::{FaultKind, IoEvent};
use crate::trace::*;

#[derive(Clone, Debug)]
pub struct OutPkt {
    pub tr: usize,
    pub start: usize,
    pub end: usize,
    pub packet: Packet,
    pub anomalies: Vec<Anomaly>,
    /// event index of the write that accepted the first / last byte
    pub ev_first: usize,
    pub ev_last: usize,
    pub t_first: u64,
    pub t_last: u64,
    /// op running while the last byte was accepted (None: inside connect())
    pub op_last: Option<usize>,
    pub op_first: Option<usize>,
}

#[derive(Clone, Debug)]
pub enum TL {
    ConnStart { tr: usize, conn: usize },
    ConnEnd { tr: usize, res: ConnRes },
    OpStart { op: usize },
    OpEnd { op: usize },
    /// first byte of outbound packet accepted
    OutStart(usize),
    /// last byte of outbound packet accepted
    OutDone(usize),
    /// last byte of inbound packet handed to the client (index into trace.inbound)
    InDone(usize, u64),
    Delivery { op: usize, msg: usize },
    Fault { tr: usize, kind: FaultKind },
    Flush { tr: usize, t: u64 },
    HandleEnd { tr: usize, how: EndHow },
    Sample(usize),
    Advance(u64),
    Burn(u32),
}

#[derive(Clone, Debug)]
pub struct TrView {
    /// bytes after the last complete packet
    pub tail_start: usize,
    pub fatal: Option<Fatal>,
    pub pkts: Vec<usize>,
}

pub struct View<'a> {
    pub trace: &'a Trace,
    pub out: Vec<OutPkt>,
    pub trs: Vec<TrView>,
    pub tl: Vec<TL>,
}

impl<'a> View<'a> {
    pub fn build(trace: &'a Trace) -> Self {
        let ntr = trace.out.len();
        let mut out: Vec<OutPkt> = Vec::new();
        let mut trs: Vec<TrView> = Vec::new();
        for (tr, bytes) in trace.out.iter().enumerate() {
            let mut sp = StreamParser::default();
            let items = sp.pump(bytes);
            let mut v = TrView { tail_start: sp.pos, fatal: sp.dead.clone(), pkts: Vec::new() };
            for it in items {
                v.pkts.push(out.len());
                out.push(OutPkt {
                    tr,
                    start: it.start,
                    end: it.end,
                    packet: it.decoded.packet,
                    anomalies: it.decoded.anomalies,
                    ev_first: 0,
                    ev_last: 0,
                    t_first: 0,
                    t_last: 0,
                    op_last: None,
                    op_first: None,
                });
            }
            trs.push(v);
        }
        // cursors per transport
        let mut next_start: Vec<usize> = vec![0; ntr]; // index into trs[tr].pkts for OutStart
        let mut next_done: Vec<usize> = vec![0; ntr];
        // inbound packets per transport in queue order
        let mut in_by_tr: Vec<Vec<usize>> = vec![Vec::new(); ntr];
        for (i, p) in trace.inbound.iter().enumerate() {
            if p.tr < ntr {
                in_by_tr[p.tr].push(i);
            }
        }
        let mut next_in: Vec<usize> = vec![0; ntr];
        let mut tl = Vec::with_capacity(trace.events.len() + out.len());
        let mut cur_op: Option<usize> = None;
        for (ei, ev) in trace.events.iter().enumerate() {
            match ev {
                Event::Io(IoEvent::Write { tr, off, n, t }) => {
                    let lo = *off;
                    let hi = off + n;
                    loop {
                        // interleave starts and completions in stream order
                        let s = trs[*tr].pkts.get(next_start[*tr]).copied();
                        let d = trs[*tr].pkts.get(next_done[*tr]).copied();
                        let s_ok = s.is_some_and(|i| out[i].start >= lo && out[i].start < hi);
                        let d_ok = d.is_some_and(|i| out[i].end > lo && out[i].end <= hi);
                        if s_ok && (!d_ok || out[s.unwrap()].start < out[d.unwrap()].end) {
                            let i = s.unwrap();
                            out[i].ev_first = ei;
                            out[i].t_first = *t;
                            out[i].op_first = cur_op;
                            tl.push(TL::OutStart(i));
                            next_start[*tr] += 1;
                        } else if d_ok {
                            let i = d.unwrap();
                            out[i].ev_last = ei;
                            out[i].t_last = *t;
                            out[i].op_last = cur_op;
                            tl.push(TL::OutDone(i));
                            next_done[*tr] += 1;
                        } else {
                            break;
                        }
                    }
                }
                Event::Io(IoEvent::Read { tr, off, n, t }) => {
                    let hi = off + n;
                    while let Some(&i) = in_by_tr[*tr].get(next_in[*tr]) {
                        let p = &trace.inbound[i];
                        if p.off + p.len <= hi {
                            tl.push(TL::InDone(i, *t));
                            next_in[*tr] += 1;
                        } else {
                            break;
                        }
                    }
                }
                Event::Io(IoEvent::Flush { tr, t }) => tl.push(TL::Flush { tr: *tr, t: *t }),
                Event::Io(IoEvent::Fault { tr, kind, .. }) => tl.push(TL::Fault { tr: *tr, kind: *kind }),
                Event::ConnStart { tr, conn } => {
                    cur_op = None;
                    tl.push(TL::ConnStart { tr: *tr, conn: *conn })
                }
                Event::ConnEnd { tr, res } => tl.push(TL::ConnEnd { tr: *tr, res: *res }),
                Event::OpStart { op, .. } => {
                    cur_op = Some(*op);
                    tl.push(TL::OpStart { op: *op })
                }
                Event::OpEnd { op, .. } => {
                    cur_op = None;
                    tl.push(TL::OpEnd { op: *op })
                }
                Event::Delivery { op, msg, .. } => tl.push(TL::Delivery { op: *op, msg: *msg }),
                Event::HandleEnd { tr, how } => tl.push(TL::HandleEnd { tr: *tr, how: *how }),
                Event::Queued { .. } => {}
                Event::Sample(_) => tl.push(TL::Sample(ei)),
                Event::Advance { to } => tl.push(TL::Advance(*to)),
                Event::Burn { n } => tl.push(TL::Burn(*n)),
            }
        }
        View { trace, out, trs, tl }
    }

    pub fn sample(&self, ei: usize) -> &Sample {
        match &self.trace.events[ei] {
            Event::Sample(s) => s,
            _ => unreachable!(),
        }
    }

    /// Outbound bytes of one packet.
    pub fn bytes(&self, i: usize) -> &[u8] {
        let p = &self.out[i];
        &self.trace.out[p.tr][p.start..p.end]
    }
}
