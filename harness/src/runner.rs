//! Shared check infrastructure: sharded proptest runs with a fixed seed, shrinking, known
//! findings, replay files and evidence files.

use crate::model::Violation;
use proptest::strategy::{BoxedStrategy, Strategy, ValueTree};
use proptest::test_runner::{Config, RngAlgorithm, TestCaseError, TestError, TestRng, TestRunner};
use serde::Serialize;
use serde_json::{Value, json};
use std::collections::hash_map::DefaultHasher;
use std::collections::{BTreeMap, HashSet};
use std::hash::{Hash, Hasher};
use std::sync::Mutex;
use std::sync::atomic::{AtomicBool, Ordering};
use std::time::Instant;

pub const VERIF_ROOT: &str = "/verif";

/// Where evidence and replay files go (development aid: `VERIF_OUT` redirects them, e.g. when a
/// second copy of the harness is run against a scratch worktree).
pub fn out_root() -> String {
    std::env::var("VERIF_OUT").unwrap_or_else(|_| VERIF_ROOT.to_string())
}

/// Incremented after every evaluated case; a process-level watchdog turns a hang (a client
/// operation that never returns to the executor) into exit status 2, never into a violation.
pub static HEARTBEAT: std::sync::atomic::AtomicU64 = std::sync::atomic::AtomicU64::new(0);

pub fn start_hang_watchdog() {
    std::thread::spawn(|| {
        let mut last = HEARTBEAT.load(Ordering::Relaxed);
        let mut idle = 0u32;
        loop {
            std::thread::sleep(std::time::Duration::from_secs(5));
            let cur = HEARTBEAT.load(Ordering::Relaxed);
            if cur == last {
                idle += 1;
            } else {
                idle = 0;
                last = cur;
            }
            if idle >= 24 {
                println!("INCONCLUSIVE: no case finished for 120 s (a client operation does not return); exit 2");
                std::process::exit(2);
            }
        }
    });
}

#[derive(Clone, Copy, Debug, PartialEq, Eq)]
pub enum Tier {
    Quick,
    Thorough,
}

impl Tier {
    pub fn name(&self) -> &'static str {
        match self {
            Tier::Quick => "quick",
            Tier::Thorough => "thorough",
        }
    }
    pub fn pick<T>(&self, quick: T, thorough: T) -> T {
        match self {
            Tier::Quick => quick,
            Tier::Thorough => thorough,
        }
    }
}

#[derive(Clone, Debug)]
pub struct Known {
    pub status: String,
    pub property: String,
    pub signature: String,
    pub what: String,
}

pub struct Ctx {
    pub prop: &'static str,
    pub tier: Tier,
    pub seed: u64,
    pub known: Vec<Known>,
    pub strict: bool,
    pub start: Instant,
}

impl Ctx {
    pub fn is_known(&self, v: &Violation) -> Option<&Known> {
        if self.strict {
            return None;
        }
        self.known.iter().find(|k| k.status == "known" && k.property == v.prop && sig_matches(&k.signature, &v.sig))
    }
}

/// Known-finding signatures are exact, except that a trailing `*` matches any suffix.
pub fn sig_matches(pat: &str, sig: &str) -> bool {
    match pat.strip_suffix('*') {
        Some(prefix) => sig.starts_with(prefix),
        None => pat == sig,
    }
}

pub fn load_known() -> Vec<Known> {
    let path = format!("{VERIF_ROOT}/KNOWN_FINDINGS.json");
    let Ok(text) = std::fs::read_to_string(&path) else { return vec![] };
    let v: Value = serde_json::from_str(&text).expect("KNOWN_FINDINGS.json is valid JSON");
    let mut out = Vec::new();
    for e in v["findings"].as_array().cloned().unwrap_or_default() {
        out.push(Known {
            status: e["status"].as_str().unwrap_or("").to_string(),
            property: e["property"].as_str().unwrap_or("").to_string(),
            signature: e["signature"].as_str().unwrap_or("").to_string(),
            what: e["what"].as_str().unwrap_or("").to_string(),
        });
    }
    out
}

/// What one evaluated case reports back.
#[derive(Default)]
pub struct Eval {
    pub violations: Vec<Violation>,
    pub nontrivial: bool,
    pub classes: Vec<&'static str>,
    /// the count-based watchdog aborted the case (inconclusive, never a violation by itself)
    pub watchdog: bool,
}

#[derive(Default)]
pub struct Agg {
    pub evaluations: u64,
    pub nontrivial: HashSet<u64>,
    pub classes: BTreeMap<String, u64>,
    pub known_hits: BTreeMap<String, u64>,
    pub samples: Vec<Value>,
    pub failure: Option<Failure>,
    pub extra: BTreeMap<String, Value>,
    pub exhaustive: Option<bool>,
    pub watchdogs: u64,
    /// every unknown violation signature seen (development aid, printed with VERIF_ALL=1)
    pub unknown_sigs: BTreeMap<String, u64>,
}

#[derive(Clone, Debug)]
pub struct Failure {
    pub kind: String,
    pub input: Value,
    pub violations: Vec<Violation>,
}

impl Agg {
    pub fn merge(&mut self, o: Agg) {
        self.evaluations += o.evaluations;
        self.watchdogs += o.watchdogs;
        for (k, v) in o.unknown_sigs {
            *self.unknown_sigs.entry(k).or_default() += v;
        }
        self.nontrivial.extend(o.nontrivial);
        for (k, v) in o.classes {
            *self.classes.entry(k).or_default() += v;
        }
        for (k, v) in o.known_hits {
            *self.known_hits.entry(k).or_default() += v;
        }
        for s in o.samples {
            if self.samples.len() < 4 {
                self.samples.push(s);
            }
        }
        if self.failure.is_none() {
            self.failure = o.failure;
        }
        for (k, v) in o.extra {
            self.extra.insert(k, v);
        }
    }

    /// Record one evaluated case (outside proptest: enumerations).
    pub fn record<T: Hash + Serialize>(&mut self, ctx: &Ctx, kind: &str, input: &T, ev: Eval) -> bool {
        self.evaluations += 1;
        HEARTBEAT.fetch_add(1, Ordering::Relaxed);
        if ev.watchdog {
            self.watchdogs += 1;
            if !self.extra.contains_key("first_watchdog_input") {
                self.extra.insert("first_watchdog_input".into(), serde_json::to_value(input).unwrap_or(Value::Null));
            }
        }
        for c in &ev.classes {
            *self.classes.entry(c.to_string()).or_default() += 1;
        }
        let mut unknown = Vec::new();
        for v in ev.violations {
            if v.prop != ctx.prop && v.prop != "PANIC" {
                continue;
            }
            match ctx.is_known(&v) {
                Some(k) => *self.known_hits.entry(k.signature.clone()).or_default() += 1,
                None => {
                    *self.unknown_sigs.entry(v.sig.clone()).or_default() += 1;
                    unknown.push(v)
                }
            }
        }
        if ev.nontrivial {
            let mut h = DefaultHasher::new();
            input.hash(&mut h);
            if self.nontrivial.insert(h.finish()) && self.samples.len() < 4 && self.nontrivial.len() % 7 == 1 {
                self.samples.push(serde_json::to_value(input).unwrap_or(Value::Null));
            }
        }
        if !unknown.is_empty() && self.failure.is_none() {
            self.failure = Some(Failure { kind: kind.to_string(), input: serde_json::to_value(input).unwrap(), violations: unknown });
            return false;
        }
        true
    }
}

fn shard_seed(seed: u64, prop: &str, shard: u64) -> [u8; 32] {
    let mut out = [0u8; 32];
    let mut h = DefaultHasher::new();
    (seed, prop, shard).hash(&mut h);
    let a = h.finish();
    let mut h2 = DefaultHasher::new();
    (a, 0x9E37_79B9_7F4A_7C15u64).hash(&mut h2);
    let b = h2.finish();
    out[..8].copy_from_slice(&a.to_le_bytes());
    out[8..16].copy_from_slice(&b.to_le_bytes());
    out[16..24].copy_from_slice(&seed.to_le_bytes());
    out[24..32].copy_from_slice(&shard.to_le_bytes());
    out
}

/// Run `cases` generated cases split over `shards` logical shards (the result does not depend on
/// the number of cores). The first failing case is shrunk by proptest.
pub fn run_prop<T, S, E>(ctx: &Ctx, kind: &str, shards: u64, cases: u64, strategy: S, eval: E) -> Agg
where
    T: std::fmt::Debug + Clone + Hash + Serialize + 'static,
    S: Fn() -> BoxedStrategy<T> + Sync,
    E: Fn(&T) -> Eval + Sync,
{
    let per = cases.div_ceil(shards);
    let stop = AtomicBool::new(false);
    let total = Mutex::new(Agg::default());
    let threads = std::thread::available_parallelism().map(|n| n.get()).unwrap_or(4).min(shards as usize);
    let next = std::sync::atomic::AtomicU64::new(0);
    std::thread::scope(|sc| {
        for _ in 0..threads {
            sc.spawn(|| {
                loop {
                    let shard = next.fetch_add(1, Ordering::SeqCst);
                    if shard >= shards || stop.load(Ordering::SeqCst) {
                        break;
                    }
                    let agg = run_shard(ctx, kind, shard, per, &strategy, &eval, &stop);
                    total.lock().unwrap().merge(agg);
                }
            });
        }
    });
    total.into_inner().unwrap()
}

fn run_shard<T, S, E>(ctx: &Ctx, kind: &str, shard: u64, cases: u64, strategy: &S, eval: &E, stop: &AtomicBool) -> Agg
where
    T: std::fmt::Debug + Clone + Hash + Serialize + 'static,
    S: Fn() -> BoxedStrategy<T>,
    E: Fn(&T) -> Eval,
{
    let mut agg = Agg::default();
    let config = Config {
        cases: cases as u32,
        failure_persistence: None,
        max_shrink_iters: 4000,
        max_global_rejects: 1,
        ..Config::default()
    };
    let rng = TestRng::from_seed(RngAlgorithm::ChaCha, &shard_seed(ctx.seed, ctx.prop, shard));
    let mut runner = TestRunner::new_with_rng(config, rng);
    let strat = strategy();
    // Manual loop instead of `runner.run`: keeps counting exact and lets us stop early.
    let mut failed: Option<(Box<dyn ValueTree<Value = T>>, Vec<Violation>)> = None;
    for _ in 0..cases {
        if stop.load(Ordering::Relaxed) {
            break;
        }
        let tree = match strat.new_tree(&mut runner) {
            Ok(t) => t,
            Err(_) => continue,
        };
        let value = tree.current();
        let ev = eval(&value);
        let unknown = unknown_of(ctx, &ev);
        let ok = agg.record(ctx, kind, &value, ev);
        if !ok {
            failed = Some((Box::new(tree), unknown));
            stop.store(true, Ordering::SeqCst);
            break;
        }
        if agg.watchdogs >= 25 {
            // the run is inconclusive already (exit 2); cases that spin until the count-based
            // watchdog fires are slow, so do not grind through the remaining ones
            stop.store(true, Ordering::SeqCst);
            break;
        }
    }
    if let Some((mut tree, mut viols)) = failed {
        // shrink towards a minimal case that still shows an unknown violation
        let mut iters = 0;
        let mut best = tree.current();
        // the shrink budget only affects how small the replay file gets, never the verdict
        let shrink_start = Instant::now();
        if tree.simplify() {
            loop {
                iters += 1;
                if iters > 4000 || shrink_start.elapsed().as_secs() > 15 {
                    break;
                }
                let cand = tree.current();
                let ev = eval(&cand);
                let u = unknown_of(ctx, &ev);
                if !u.is_empty() {
                    best = cand;
                    viols = u;
                    if !tree.simplify() {
                        break;
                    }
                } else if !tree.complicate() {
                    break;
                }
            }
        }
        agg.failure = Some(Failure { kind: kind.to_string(), input: serde_json::to_value(&best).unwrap(), violations: viols });
    }
    let _ = TestCaseError::fail("unused");
    let _: Option<TestError<u8>> = None;
    agg
}

fn unknown_of(ctx: &Ctx, ev: &Eval) -> Vec<Violation> {
    ev.violations
        .iter()
        .filter(|v| (v.prop == ctx.prop || v.prop == "PANIC") && ctx.is_known(v).is_none())
        .cloned()
        .collect()
}

pub struct Report {
    pub level: &'static str,
    pub rule: String,
    pub assumptions: Vec<String>,
}

/// Write evidence, print the verdict lines, return the process exit code.
pub fn finish(ctx: &Ctx, agg: Agg, rep: Report) -> i32 {
    let wall = ctx.start.elapsed().as_secs_f64();
    let mut coverage = serde_json::Map::new();
    coverage.insert("evaluations".into(), json!(agg.evaluations));
    coverage.insert("distinct_nontrivial".into(), json!(agg.nontrivial.len()));
    coverage.insert("rule".into(), json!(rep.rule));
    coverage.insert("samples".into(), Value::Array(agg.samples.clone()));
    coverage.insert("classes".into(), json!(agg.classes));
    coverage.insert("known_finding_hits".into(), json!(agg.known_hits));
    if let Some(e) = agg.exhaustive {
        coverage.insert("exhaustive".into(), json!(e));
    }
    for (k, v) in &agg.extra {
        coverage.insert(k.clone(), v.clone());
    }
    if std::env::var("VERIF_ALL").is_ok() {
        for (k, v) in &agg.unknown_sigs {
            println!("unknown-signature {k} x{v}");
        }
    }
    let mut code = 0;
    let mut nviol = 0;
    if let Some(f) = &agg.failure {
        nviol = f.violations.len();
        let mut h = DefaultHasher::new();
        f.input.to_string().hash(&mut h);
        let dir = format!("{}/replays/{}", out_root(), ctx.prop);
        let _ = std::fs::create_dir_all(&dir);
        let sig = f.violations.first().map(|v| v.sig.clone()).unwrap_or_default();
        let slug: String = sig.chars().map(|c| if c.is_ascii_alphanumeric() { c } else { '_' }).take(60).collect();
        let path = format!("{dir}/{slug}-{:08x}.json", h.finish() as u32);
        let body = json!({
            "property": ctx.prop,
            "kind": f.kind,
            "seed": ctx.seed,
            "input": f.input,
            "violations": f.violations.iter().map(|v| json!({"property": v.prop, "signature": v.sig, "detail": v.detail})).collect::<Vec<_>>(),
        });
        std::fs::write(&path, serde_json::to_string_pretty(&body).unwrap()).expect("write replay");
        for v in &f.violations {
            println!("violation: {} {}\n  {}", v.prop, v.sig, v.detail);
        }
        println!("VIOLATION property={} replay={}", ctx.prop, path);
        code = 1;
    }
    for k in ctx.known.iter().filter(|k| k.status == "known" && k.property == ctx.prop) {
        let hits = agg.known_hits.get(&k.signature).copied().unwrap_or(0);
        println!("KNOWN-FINDING: property={} {} [signature {} hit {} times in this run]", ctx.prop, k.what, k.signature, hits);
    }
    if code == 0 && agg.watchdogs > 0 {
        println!("INCONCLUSIVE: {} cases were aborted by the count-based watchdog (client did not stop polling the transport)", agg.watchdogs);
        code = 2;
    }
    coverage.insert("watchdog_aborts".into(), json!(agg.watchdogs));
    let ev = json!({
        "property_id": ctx.prop,
        "tier": ctx.tier.name(),
        "seed": ctx.seed,
        "level": rep.level,
        "coverage": Value::Object(coverage),
        "assumptions": rep.assumptions,
        "wall_s": wall,
        "violations": nviol,
    });
    let dir = format!("{}/evidence", out_root());
    let _ = std::fs::create_dir_all(&dir);
    std::fs::write(format!("{dir}/{}.json", ctx.prop), serde_json::to_string_pretty(&ev).unwrap()).expect("write evidence");
    println!(
        "{} {}: evaluations={} distinct_nontrivial={} known_hits={} wall={:.1}s => {}",
        ctx.prop,
        ctx.tier.name(),
        agg.evaluations,
        agg.nontrivial.len(),
        agg.known_hits.values().sum::<u64>(),
        wall,
        if code == 0 { "OK" } else { "VIOLATION" }
    );
    code
}
