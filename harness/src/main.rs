use std::time::Instant;
use vharness::runner::{Ctx, Tier, load_known};

const IDS: [&str; 20] = [
    "C01", "C02", "C03", "C04", "C05", "C06", "C07", "C08", "C09", "C10", "C11", "C12", "C13", "C14", "C15", "C16",
    "C17", "C18", "C19", "C20",
];

fn usage() -> ! {
    eprintln!("usage: vcheck <Cxx> quick|thorough | vcheck <Cxx> --replay <file> | vcheck --show <file>");
    std::process::exit(2)
}

fn main() {
    let args: Vec<String> = std::env::args().skip(1).collect();
    if args.len() < 2 {
        usage();
    }
    if args[0] == "--show" {
        let text = std::fs::read_to_string(&args[1]).expect("read file");
        let v: serde_json::Value = serde_json::from_str(&text).expect("json");
        let case: vharness::scenario::Case = serde_json::from_value(v["input"].clone()).expect("case");
        let t = vharness::world::run_case(&case);
        for e in &t.events {
            println!("{e:?}");
        }
        for (i, o) in t.inb.iter().enumerate() {
            println!("inb[{i}]={o:02x?}");
        }
        for (i, o) in t.out.iter().enumerate() {
            println!("out[{i}]={o:02x?}");
        }
        return;
    }
    let Some(prop) = IDS.iter().find(|i| **i == args[0]) else { usage() };
    let seed = std::env::var("VERIF_SEED").ok().and_then(|s| s.parse::<u64>().ok()).unwrap_or(20260925);
    let mut ctx = Ctx { prop, tier: Tier::Quick, seed, known: load_known(), strict: false, start: Instant::now() };
    if args[1] == "--replay" {
        let path = args.get(2).unwrap_or_else(|| usage());
        let text = std::fs::read_to_string(path).expect("read replay file");
        let v: serde_json::Value = serde_json::from_str(&text).expect("replay file is json");
        let kind = v["kind"].as_str().unwrap_or("case").to_string();
        ctx.strict = std::env::var("VERIF_STRICT").is_ok();
        vharness::install_panic_hook();
        match vharness::props::replay(&ctx, &kind, &v["input"]) {
            Ok(viols) => {
                let mine: Vec<_> = viols.iter().filter(|x| x.prop == ctx.prop || x.prop == "PANIC").collect();
                let mut bad = false;
                for x in &mine {
                    let known = ctx.is_known(x).is_some();
                    println!("{} {} {}\n  {}", if known { "known-finding" } else { "violation" }, x.prop, x.sig, x.detail);
                    bad |= !known;
                }
                if bad {
                    println!("VIOLATION property={} replay={}", ctx.prop, path);
                    std::process::exit(1);
                }
                println!("replay: property {} holds on this input", ctx.prop);
            }
            Err(e) => {
                eprintln!("replay failed: {e}");
                std::process::exit(2);
            }
        }
        return;
    }
    ctx.tier = match args[1].as_str() {
        "quick" => Tier::Quick,
        "thorough" => Tier::Thorough,
        _ => usage(),
    };
    if let Ok(t) = std::env::var("VERIF_TIER") {
        if t == "thorough" {
            ctx.tier = Tier::Thorough;
        } else if t == "quick" {
            ctx.tier = Tier::Quick;
        }
    }
    vharness::install_panic_hook();
    vharness::runner::start_hang_watchdog();
    let code = vharness::props::run(&ctx);
    std::process::exit(code);
}
