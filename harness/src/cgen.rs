//! proptest strategies for scenario cases. One parametric generator (`Profile`) serves most
//! properties; each property tunes the weights towards the behaviour it quantifies over.

use crate::refcodec::{Prop, SubOpts};
use crate::scenario::*;
use crate::sim::io::Fault;
use crate::trace::EndHow;
use proptest::prelude::*;
use proptest::strategy::Union;

#[derive(Clone, Debug)]
pub struct Profile {
    pub conns: (usize, usize),
    pub steps: (usize, usize),
    pub rx: (usize, usize),
    pub tx: (usize, usize),
    pub handshake_failures: u32,
    pub cancels: bool,
    pub faults: bool,
    pub partial_io: bool,
    pub pend_first_pct: u32,
    pub keep_session_pct: u32,
    /// resumed connections on which the broker has not seen the PUBRECs of the previous one
    pub lost_pubrecs_pct: u32,
    pub auto_broker_pct: u32,
    pub w_pub: [u32; 3],
    pub w_sub: u32,
    pub w_unsub: u32,
    pub w_poll: u32,
    pub w_idle: u32,
    pub w_recv: u32,
    pub w_drive: u32,
    pub w_ack: u32,
    pub w_ackall: u32,
    pub w_stale: u32,
    pub w_deliver: u32,
    pub w_redeliver: u32,
    pub w_pubrel: u32,
    pub w_disconnect: u32,
    pub w_server_disconnect: u32,
    pub w_setio: u32,
    pub w_fault: u32,
    pub w_eof: u32,
    pub w_advance: u32,
    pub w_fill: u32,
    /// malformed / hostile inbound bytes (invalid-packet deaths)
    pub w_raw: u32,
    pub w_pingresp: u32,
    /// keep-alive choices (seconds); non-zero values make PINGREQs appear after `Advance` steps
    pub keepalive: Vec<u16>,
    pub fail_reason_pct: u32,
    /// Receive Maximum choices (None = absent)
    pub rm: Vec<Option<u16>>,
    pub max_packet: Vec<Option<u32>>,
    pub max_qos: Vec<Option<u8>>,
    pub payload_max: u32,
    pub topic_max: u32,
    pub pub_props: bool,
    pub end_forget_pct: u32,
    pub downgrade_pct: u32,
    pub final_drain: bool,
    /// percentage of cases in which the broker's Receive Maximum differs between the connections of
    /// one session (legal: the value belongs to each CONNACK); otherwise the first connection's is used
    pub vary_rm_pct: u32,
    /// configured Session Expiry Interval choices (0 = the broker drops the session when the
    /// network connection closes, so every reconnect meets a fresh broker session)
    pub session_expiry: Vec<u32>,
    /// percentage of cases in which later connections plan a small Maximum Packet Size (5..20);
    /// the broker model applies it only where everything the client may retain still fits
    pub shrink_mps_pct: u32,
    /// percentage of cases in which every request of a kind has the same content (an application
    /// that publishes the same message again and again): identical packets on the wire
    pub twins_pct: u32,
    /// percentage of cases in which the broker announces every planned Maximum Packet Size even
    /// if something retained no longer fits (the connection is then stuck by design; only rules
    /// that hold on a stuck connection may be judged by a check that sets this)
    pub unconditional_limits_pct: u32,
}

impl Default for Profile {
    fn default() -> Self {
        Self {
            conns: (1, 4),
            steps: (0, 14),
            rx: (64, 300),
            tx: (96, 1200),
            handshake_failures: 10,
            cancels: true,
            faults: true,
            partial_io: true,
            pend_first_pct: 50,
            keep_session_pct: 80,
            lost_pubrecs_pct: 25,
            auto_broker_pct: 30,
            w_pub: [3, 6, 6],
            w_sub: 2,
            w_unsub: 2,
            w_poll: 6,
            w_idle: 5,
            w_recv: 1,
            w_drive: 2,
            w_ack: 8,
            w_ackall: 2,
            w_stale: 1,
            w_deliver: 4,
            w_redeliver: 1,
            w_pubrel: 2,
            w_disconnect: 1,
            w_server_disconnect: 1,
            w_setio: 1,
            w_fault: 2,
            w_eof: 1,
            w_advance: 0,
            w_fill: 0,
            w_raw: 0,
            w_pingresp: 0,
            keepalive: vec![0],
            fail_reason_pct: 15,
            rm: vec![None, None, Some(1), Some(2), Some(3), Some(5), Some(8), Some(20), Some(65535)],
            max_packet: vec![None],
            max_qos: vec![None, None, None, None, Some(0), Some(1)],
            payload_max: 40,
            topic_max: 12,
            pub_props: true,
            end_forget_pct: 10,
            downgrade_pct: 35,
            final_drain: false,
            vary_rm_pct: 25,
            session_expiry: vec![3600, 3600, 3600, 3600, 1, 0, u32::MAX],
            shrink_mps_pct: 15,
            twins_pct: 5,
            unconditional_limits_pct: 0,
        }
    }
}

fn pct(p: u32) -> BoxedStrategy<bool> {
    (0u32..100).prop_map(move |x| x < p).boxed()
}

pub fn chunks() -> BoxedStrategy<Vec<u16>> {
    prop_oneof![
        3 => Just(vec![]),
        3 => Just(vec![1u16]),
        1 => Just(vec![2u16]),
        1 => Just(vec![1u16, 3]),
        2 => prop::collection::vec(1u16..9, 1..5),
        1 => prop::collection::vec(1u16..40, 1..4),
    ]
    .boxed()
}

pub fn io_cfg(p: &Profile) -> BoxedStrategy<IoCfg> {
    if !p.partial_io {
        let pf = p.pend_first_pct;
        return pct(pf).prop_map(|pend_first| IoCfg { read_chunks: vec![], write_chunks: vec![], pend_first, read_cuts: vec![] }).boxed();
    }
    (chunks(), chunks(), pct(p.pend_first_pct))
        .prop_map(|(read_chunks, write_chunks, pend_first)| IoCfg { read_chunks, write_chunks, pend_first, read_cuts: vec![] })
        .boxed()
}

fn small_string() -> BoxedStrategy<String> {
    prop_oneof![Just("".to_string()), "[a-z]{1,6}", Just("é€/x".to_string())].boxed()
}

pub fn publish_props() -> BoxedStrategy<Vec<Prop>> {
    let one = prop_oneof![
        (0u8..2).prop_map(Prop::PayloadFormat),
        any::<u32>().prop_map(Prop::MessageExpiry),
        small_string().prop_map(Prop::ContentType),
        (1u32..10, any::<u8>()).prop_map(|(l, v)| Prop::ResponseTopic(TopicSpec::new(l, v).name())),
        prop::collection::vec(any::<u8>(), 0..6).prop_map(Prop::CorrelationData),
        (small_string(), small_string()).prop_map(|(k, v)| Prop::UserProperty(k, v)),
    ];
    prop::collection::vec(one, 0..4)
        .prop_map(|v| {
            // single-instance properties at most once
            let mut out: Vec<Prop> = Vec::new();
            for p in v {
                if p.id() == 0x26 || !out.iter().any(|q| q.id() == p.id()) {
                    out.push(p);
                }
            }
            out
        })
        .boxed()
}

pub fn deliver_props() -> BoxedStrategy<Vec<Prop>> {
    let one = prop_oneof![
        (0u8..2).prop_map(Prop::PayloadFormat),
        any::<u32>().prop_map(Prop::MessageExpiry),
        small_string().prop_map(Prop::ContentType),
        (1u32..10, any::<u8>()).prop_map(|(l, v)| Prop::ResponseTopic(TopicSpec::new(l, v).name())),
        prop::collection::vec(any::<u8>(), 0..6).prop_map(Prop::CorrelationData),
        (small_string(), small_string()).prop_map(|(k, v)| Prop::UserProperty(k, v)),
        prop_oneof![1u32..128, 128u32..20000, Just(16_384u32), Just(2_097_151u32), Just(2_097_152u32), Just(33_554_432u32), Just(268_435_455u32), 1u32..=268_435_455].prop_map(Prop::SubscriptionId),
    ];
    prop::collection::vec(one, 0..5)
        .prop_map(|v| {
            let mut out: Vec<Prop> = Vec::new();
            for p in v {
                if p.id() == 0x26 || p.id() == 0x0B || !out.iter().any(|q| q.id() == p.id()) {
                    out.push(p);
                }
            }
            out
        })
        .boxed()
}

fn cancel(p: &Profile) -> BoxedStrategy<Option<u16>> {
    if p.cancels {
        prop_oneof![4 => Just(None), 2 => (0u16..6).prop_map(Some), 1 => (0u16..40).prop_map(Some)].boxed()
    } else {
        Just(None).boxed()
    }
}

pub fn sub_opts() -> BoxedStrategy<SubOpts> {
    (0u8..3, any::<bool>(), any::<bool>(), 0u8..3)
        .prop_map(|(qos, no_local, rap, retain_handling)| SubOpts { qos, no_local, rap, retain_handling })
        .boxed()
}

pub fn pub_spec(p: &Profile, qos: u8) -> BoxedStrategy<PubSpec> {
    let props = if p.pub_props { publish_props() } else { Just(vec![]).boxed() };
    let corr = if p.pub_props {
        prop_oneof![4 => Just(None), 1 => prop::collection::vec(any::<u8>(), 0..5).prop_map(Some)].boxed()
    } else {
        Just(None).boxed()
    };
    // payload handed over as a slice (mostly), through a closure, as &str, or through a closure that fails
    let via = prop::sample::select(vec![0u8, 0, 0, 0, 0, 0, 0, 1, 1, 2, 3]);
    (any::<bool>(), 1u32..=p.topic_max.max(1), any::<u8>(), 0u32..=p.payload_max, any::<u8>(), props, corr, cancel(p), via)
        .prop_map(move |(retain, tl, tv, pl, ps, mut props, correlate, cancel, via)| {
            if correlate.is_some() {
                props.retain(|q| q.id() != 0x09);
            }
            PubSpec {
                qos,
                retain,
                topic: TopicSpec::new(tl, tv),
                payload: PayloadSpec::new(pl, ps),
                props,
                correlate,
                cancel,
                via,
            }
        })
        .boxed()
}

pub fn step(p: &Profile) -> BoxedStrategy<Step> {
    let mut alts: Vec<(u32, BoxedStrategy<Step>)> = Vec::new();
    for q in 0..3u8 {
        if p.w_pub[q as usize] > 0 {
            alts.push((p.w_pub[q as usize], pub_spec(p, q).prop_map(Step::Publish).boxed()));
        }
    }
    let user_props = prop::collection::vec((small_string(), small_string()).prop_map(|(k, v)| Prop::UserProperty(k, v)), 0..2);
    if p.w_sub > 0 {
        let sub_props = (user_props.clone(), prop_oneof![3 => Just(None), 1 => (1u32..300).prop_map(Some), 1 => prop_oneof![Just(16_384u32), Just(2_097_152u32), Just(33_554_431u32), Just(268_435_455u32), 1u32..=268_435_455].prop_map(Some)]).prop_map(|(mut u, s)| {
            if let Some(s) = s {
                u.push(Prop::SubscriptionId(s));
            }
            u
        });
        alts.push((
            p.w_sub,
            (prop::collection::vec(((1u32..10, any::<u8>()).prop_map(|(l, v)| TopicSpec::new(l, v)), sub_opts()), 1..4), sub_props, cancel(p))
                .prop_map(|(filters, props, cancel)| Step::Subscribe { filters, props, cancel })
                .boxed(),
        ));
    }
    if p.w_unsub > 0 {
        alts.push((
            p.w_unsub,
            (prop::collection::vec((1u32..10, any::<u8>()).prop_map(|(l, v)| TopicSpec::new(l, v)), 1..4), user_props.clone(), cancel(p))
                .prop_map(|(filters, props, cancel)| Step::Unsubscribe { filters, props, cancel })
                .boxed(),
        ));
    }
    if p.w_poll > 0 {
        alts.push((p.w_poll, cancel(p).prop_map(|cancel| Step::Poll { cancel }).boxed()));
    }
    if p.w_idle > 0 {
        alts.push((p.w_idle, Just(Step::PollIdle { max: 40 }).boxed()));
    }
    if p.w_recv > 0 {
        alts.push((p.w_recv, cancel(p).prop_map(|cancel| Step::Recv { cancel }).boxed()));
    }
    if p.w_drive > 0 {
        alts.push((p.w_drive, cancel(p).prop_map(|cancel| Step::Drive { cancel }).boxed()));
    }
    if p.w_ack > 0 {
        let fr = p.fail_reason_pct;
        let reason = (0u32..100, any::<u8>()).prop_map(move |(x, r)| if x < fr { 0x80 | r } else if x < fr + 5 { 0x10 } else { 0 });
        let form = prop_oneof![Just(AckForm::Short), Just(AckForm::Reason), Just(AckForm::ReasonProps)];
        alts.push((
            p.w_ack,
            (any::<u16>(), reason, form).prop_map(|(which, reason, form)| Step::Broker(BrokerAct::Ack { which, reason, form })).boxed(),
        ));
    }
    if p.w_ackall > 0 {
        alts.push((p.w_ackall, any::<bool>().prop_map(|reverse| Step::Broker(BrokerAct::AckAll { reverse })).boxed()));
    }
    if p.w_stale > 0 {
        alts.push((
            p.w_stale,
            any::<u16>().prop_map(|which| Step::Broker(BrokerAct::StaleAck { which })).boxed(),
        ));
    }
    if p.w_deliver > 0 {
        alts.push((
            p.w_deliver,
            (0u8..3, any::<bool>(), 1u32..=p.topic_max.max(1), any::<u8>(), 0u32..=p.payload_max, any::<u8>(), deliver_props())
                .prop_map(|(qos, retain, tl, tv, pl, ps, props)| {
                    Step::Broker(BrokerAct::Deliver {
                        qos,
                        retain,
                        topic: TopicSpec::new(tl, tv),
                        payload: PayloadSpec::new(pl, ps),
                        props,
                        redeliver: None,
                    })
                })
                .boxed(),
        ));
    }
    if p.w_redeliver > 0 {
        alts.push((
            p.w_redeliver,
            any::<u8>()
                .prop_map(|k| {
                    Step::Broker(BrokerAct::Deliver {
                        qos: 0,
                        retain: false,
                        topic: TopicSpec::new(1, 0),
                        payload: PayloadSpec::new(0, 0),
                        props: vec![],
                        redeliver: Some(k),
                    })
                })
                .boxed(),
        ));
    }
    if p.w_pubrel > 0 {
        alts.push((
            p.w_pubrel,
            (any::<u16>(), prop_oneof![6 => Just(None), 1 => (1u16..30).prop_map(Some)])
                .prop_map(|(which, unknown)| Step::Broker(BrokerAct::PubRel { which, unknown }))
                .boxed(),
        ));
    }
    if p.w_disconnect > 0 {
        alts.push((
            p.w_disconnect,
            (
                prop_oneof![Just(None), Just(Some(0u8)), Just(Some(4u8))],
                // a DISCONNECT with properties is longer than the small control buffer (other code path)
                prop_oneof![
                    5 => Just(None),
                    1 => Just(Some(vec![])),
                    1 => Just(Some(vec![Prop::SessionExpiry(5)])),
                    1 => Just(Some(vec![Prop::ReasonString("going down for maintenance".into())])),
                    1 => Just(Some(vec![Prop::UserProperty("k".into(), "v".into()), Prop::ReasonString("bye".into())])),
                ],
                cancel(p),
            )
                .prop_map(|(reason, props, cancel)| Step::Disconnect { reason, props, cancel })
                .boxed(),
        ));
    }
    if p.w_server_disconnect > 0 {
        alts.push((p.w_server_disconnect, Just(Step::Broker(BrokerAct::Disconnect { reason: 0x8B })).boxed()));
    }
    if p.w_setio > 0 {
        alts.push((p.w_setio, io_cfg(p).prop_map(Step::SetIo).boxed()));
    }
    if p.w_fault > 0 && p.faults {
        alts.push((p.w_fault, (0u16..8, any::<bool>()).prop_map(|(delta, eof)| Step::FaultAt { delta, eof }).boxed()));
    }
    if p.w_eof > 0 && p.faults {
        alts.push((p.w_eof, Just(Step::Eof).boxed()));
    }
    if p.w_fill > 0 {
        alts.push((p.w_fill, (1u8..3, 0u8..12, any::<u8>()).prop_map(|(qos, slack, seed)| Step::PublishFill { qos, slack, seed }).boxed()));
    }
    if p.w_pingresp > 0 {
        alts.push((p.w_pingresp, Just(Step::Broker(BrokerAct::PingResp)).boxed()));
    }
    if p.w_raw > 0 {
        let raw = prop_oneof![
            Just(vec![0x30u8, 0xFF, 0xFF, 0xFF, 0x7F]),                 // declared length far beyond any buffer
            Just(vec![0x40u8, 0x80, 0x80, 0x80, 0x80, 0x01]),           // remaining length never terminates
            Just(vec![0x41u8, 0x02, 0x00, 0x01]),                       // PUBACK with illegal flags
            Just(vec![0x36u8, 0x05, 0x00, 0x01, 0x61, 0x00, 0x01]),     // QoS 3
            Just(vec![0x10u8, 0x00]),                                   // client-only type
            Just(vec![0xD0u8, 0x01, 0x00]),                             // PINGRESP with a body
            Just(vec![0x30u8, 0x05, 0x00, 0x09, 0x61, 0x00, 0x00]),     // topic length past the packet
            Just(vec![0x20u8, 0x03, 0x00, 0x00, 0x00]),                 // a second, well-formed CONNACK
            Just(vec![0x20u8, 0x03, 0x01, 0x00, 0x00]),
            prop::collection::vec(any::<u8>(), 1..12),
        ];
        alts.push((p.w_raw, raw.prop_map(|b| Step::Broker(BrokerAct::Raw(b))).boxed()));
    }
    if p.w_advance > 0 {
        alts.push((p.w_advance, (1u32..20_000).prop_map(|ms| Step::Advance { ms }).boxed()));
    }
    Union::new_weighted(alts).boxed()
}

pub fn handshake(p: &Profile) -> BoxedStrategy<Handshake> {
    if p.handshake_failures == 0 {
        return Just(Handshake::Accept).boxed();
    }
    let f = p.handshake_failures;
    prop_oneof![
        (100 - f) => Just(Handshake::Accept),
        f => prop_oneof![
            (0x80u8..0xA3).prop_map(Handshake::Reject),
            // ("garbage" must not happen to be a CONNACK the client accepts - the broker model would
            // not know about that session: a first byte 0x20 becomes 0x21, CONNACK with reserved flags)
            prop::collection::vec(any::<u8>(), 1..8).prop_map(|mut b| {
                if b[0] == 0x20 {
                    b[0] = 0x21;
                }
                Handshake::Garbage(b)
            }),
            Just(Handshake::Garbage(vec![0x20, 0x03, 0x00, 0x00, 0x05])),
            // well-framed success CONNACKs that the client rejects while reading the properties:
            // Receive Maximum 0, Maximum QoS 3 (with either session-present answer)
            prop::sample::select(vec![
                vec![0x20u8, 0x06, 0x00, 0x00, 0x03, 0x21, 0x00, 0x00],
                vec![0x20, 0x05, 0x00, 0x00, 0x02, 0x24, 0x03],
                vec![0x20, 0x06, 0x01, 0x00, 0x03, 0x21, 0x00, 0x00],
                vec![0x20, 0x05, 0x01, 0x00, 0x02, 0x24, 0x03],
            ])
            .prop_map(Handshake::Garbage),
            Just(Handshake::ServerDisconnect(0x89)),
            (0u8..6).prop_map(Handshake::EofAfter),
            (0u8..6).prop_map(Handshake::StallAfter),
            (0u32..5, any::<bool>()).prop_map(|(at_call, eof)| Handshake::Fault(Fault { at_call, eof })),
            (0u16..12).prop_map(Handshake::CancelAt),
        ],
    ]
    .boxed()
}

pub fn connect_spec(p: &Profile) -> BoxedStrategy<ConnectSpec> {
    let rm = prop::sample::select(p.rm.clone());
    let mp = prop::sample::select(p.max_packet.clone());
    let mq = prop::sample::select(p.max_qos.clone());
    let extra = prop_oneof![
        3 => Just(vec![]),
        1 => Just(vec![Prop::RetainAvailable(1), Prop::UserProperty("a".into(), "b".into())]),
        1 => Just(vec![Prop::TopicAliasMaximum(0), Prop::WildcardSubAvailable(1), Prop::SubIdAvailable(1), Prop::SharedSubAvailable(0), Prop::SessionExpiry(77)]),
        // string-valued CONNACK properties that are none of the client's business
        1 => Just(vec![Prop::ResponseInfo("resp/base".into()), Prop::ServerReference("other:1883".into()), Prop::ReasonString("ok".into()), Prop::TopicAliasMaximum(10)]),
    ];
    (handshake(p), pct(p.keep_session_pct), rm, mp, mq, extra, io_cfg(p), pct(p.lost_pubrecs_pct))
        .prop_map(|(handshake, keep_session, receive_max, max_packet, max_qos, extra, io, lost_pubrecs)| ConnectSpec {
            handshake,
            keep_session,
            props: ConnackProps { receive_max, max_packet, max_qos, server_keepalive: None, assigned_id: None, extra },
            io,
            lost_pubrecs,
        })
        .boxed()
}

pub fn conn_script(p: &Profile) -> BoxedStrategy<ConnScript> {
    let end = p.end_forget_pct;
    let drain = p.final_drain;
    (connect_spec(p), prop::collection::vec(step(p), p.steps.0..=p.steps.1), 0u32..100)
        .prop_map(move |(connect, mut steps, e)| {
            if drain {
                steps.push(Step::PollIdle { max: 60 });
            }
            ConnScript {
                connect,
                steps,
                end: if e < end {
                    EndHow::Forget
                } else if e < end + 5 {
                    EndHow::IntoInner
                } else {
                    EndHow::Drop
                },
            }
        })
        .boxed()
}

pub fn cfg(p: &Profile) -> BoxedStrategy<Cfg> {
    // user name / password: absent, present, and the legal oddities (empty password, empty user name)
    let auth = prop::sample::select(vec![
        None,
        None,
        None,
        None,
        Some(("user".to_string(), b"pw".to_vec())),
        Some(("user".to_string(), Vec::new())),
        Some((String::new(), vec![0u8, 255])),
    ]);
    // a will (every CONNECT of the session must carry it unchanged; the model compares each one)
    let will = prop_oneof![
        4 => Just(None),
        1 => (1u32..12, any::<u8>(), 0u32..10, any::<u8>(), 0u8..3, any::<bool>(), prop::sample::select(vec![0u8, 1, 2, 3])).prop_map(|(tl, tv, pl, ps, qos, retain, k)| {
            let props = match k {
                0 => vec![],
                1 => vec![Prop::WillDelay(30)],
                2 => vec![Prop::UserProperty("a".into(), "b".into())],
                _ => vec![Prop::ContentType("t".into()), Prop::MessageExpiry(7)],
            };
            Some(crate::scenario::WillCfg { topic: TopicSpec::new(tl, tv), payload: PayloadSpec::new(pl, ps), qos, retain, props })
        }),
    ];
    (p.rx.0..=p.rx.1, p.tx.0..=p.tx.1, pct(p.downgrade_pct), prop::sample::select(p.keepalive.clone()), prop::sample::select(p.session_expiry.clone()), pct(p.unconditional_limits_pct), auth, will)
        .prop_map(|(rx, tx, downgrade, keepalive, session_expiry, unconditional_limits, auth, will)| {
            // (the CONNECT must still fit a small transmit arena)
            let auth = if tx >= 64 { auth } else { None };
            let will = if tx >= 128 { will } else { None };
            Cfg { rx, tx, downgrade, keepalive, session_expiry, unconditional_limits, auth, will, ..Cfg::default() }
        })
        .boxed()
}

pub fn case(p: &Profile) -> BoxedStrategy<Case> {
    let shrink: BoxedStrategy<Vec<Option<u32>>> = if p.shrink_mps_pct == 0 {
        Just(Vec::new()).boxed()
    } else {
        prop_oneof![
            (100 - p.shrink_mps_pct.min(99)) => Just(Vec::new()),
            p.shrink_mps_pct => prop::collection::vec(prop::sample::select(vec![None, Some(5u32), Some(5), Some(6), Some(8), Some(20)]), 8),
        ]
        .boxed()
    };
    (cfg(p), pct(p.auto_broker_pct), prop::collection::vec(conn_script(p), p.conns.0..=p.conns.1), pct(p.vary_rm_pct), shrink, pct(p.twins_pct))
        .prop_map(|(cfg, auto, mut conns, vary_rm, shrink, twins)| {
            if twins {
                for c in conns.iter_mut() {
                    for st in c.steps.iter_mut() {
                        match st {
                            Step::Publish(ps) => {
                                ps.topic = TopicSpec::new(1, 0);
                                ps.payload = PayloadSpec::new(0, 0);
                                ps.props.clear();
                                ps.correlate = None;
                                ps.retain = false;
                            }
                            Step::Subscribe { filters, props, .. } => {
                                filters.truncate(1);
                                if let Some(f) = filters.first_mut() {
                                    *f = (TopicSpec::new(1, 0), SubOpts { qos: 1, no_local: false, rap: false, retain_handling: 0 });
                                }
                                props.clear();
                            }
                            Step::Unsubscribe { filters, props, .. } => {
                                filters.truncate(1);
                                if let Some(f) = filters.first_mut() {
                                    *f = TopicSpec::new(1, 0);
                                }
                                props.clear();
                            }
                            _ => {}
                        }
                    }
                }
            }
            // one broker: its limits do not change between the connections of a case
            if let Some(first) = conns.first().map(|c| c.connect.props.clone()) {
                for c in conns.iter_mut().skip(1) {
                    if !vary_rm {
                        c.connect.props.receive_max = first.receive_max;
                    }
                    c.connect.props.max_packet = first.max_packet;
                    c.connect.props.max_qos = first.max_qos;
                }
                // planned smaller limits on later connections (applied by the broker model only if
                // nothing the client may have to retransmit exceeds them)
                for (i, c) in conns.iter_mut().enumerate().skip(1) {
                    if let Some(Some(m)) = shrink.get(i % shrink.len().max(1)) {
                        c.connect.props.max_packet = Some(*m);
                    }
                }
            }
            Case { cfg, broker: if auto { BrokerMode::AutoAck } else { BrokerMode::Scripted }, conns }
        })
        .boxed()
}
