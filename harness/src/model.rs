//! The reference model of what a conforming client may put on the wire / report through its API,
//! evaluated over the timeline of one interpreted case. Every rule is tagged with the property it
//! decides; a check only looks at the violations tagged with its own property.

use crate::refcodec::{self as rc, Anomaly, Packet, Prop};
use crate::scenario::*;
use crate::sim::io::FaultKind;
use crate::trace::*;
use crate::view::{TL, View};
use std::collections::VecDeque;

#[derive(Clone, Debug, PartialEq, Eq)]
pub struct Violation {
    pub prop: &'static str,
    /// Stable identifier of the rule and its discriminating attributes (used for known findings).
    pub sig: String,
    pub detail: String,
}

#[derive(Clone, Debug, Default)]
pub struct Stats {
    pub ambiguous_handles: u32,
    pub replay_deferred_by_window: u32,
    pub partial_writes: u32,
    pub cancels: u32,
    pub faults: u32,
    pub out_packets: u32,
    pub resumed: u32,
    pub fresh: u32,
    pub resumed_with_inflight: u32,
    pub fresh_with_inflight: u32,
    pub failed_handshakes: u32,
    pub replays: u32,
    pub rel_replays: u32,
    pub qos2_flights: u32,
    pub qos2_overlap_ooo: u32,
    pub acks_out_of_order: u32,
    pub failure_codes: u32,
    pub failing_payloads: u32,
    pub pubcomp_owed_across_reconnect: u32,
    pub max_distinct_status: u32,
    pub deliveries: u32,
    pub inbound_qos2_dups: u32,
    pub reconnect_between_pub_and_rel: u32,
    pub max_inbound_inflight: u32,
    pub refused_window: u32,
    pub small_rm_qos2: bool,
    pub max_flights: u32,
    pub idle_points: u32,
    pub dead_tail_ops: u32,
    pub death_kinds: Vec<&'static str>,
    pub stale_acks: u32,
    pub owed_at_full_arena: u32,
    /// a new identifier was smaller than the previous new one of the same session while other
    /// operations were still in flight (16-bit counter wrapped)
    pub wraps_with_inflight: u32,
    pub wraps: u32,
    /// per successful connect: (transport, unresolved requests, owed/optional acks) at that moment
    pub inflight_at_conn: Vec<(usize, u32, u32)>,
    /// per connect attempt: (transport, bytes of the packets the client retains in its transmit
    /// arena according to the wire, whether that figure is certain - every request that may have
    /// been enqueued has been seen on the wire)
    pub retained_at_conn_start: Vec<(usize, usize, bool)>,
}

#[derive(Clone, Copy, Debug, PartialEq, Eq)]
enum FKind {
    Pub1,
    Pub2,
    Sub,
    Unsub,
}

#[derive(Clone, Copy, Debug, PartialEq, Eq)]
enum Phase {
    AwaitAck,
    Released { order: u32 },
    Done,
}

#[derive(Clone, Debug)]
struct Flight {
    pid: u16,
    kind: FKind,
    req: Option<usize>,
    epoch: u32,
    first_tx: Option<Vec<u8>>,
    first_tr: usize,
    tx_here: u32,
    sent_here: bool,
    phase: Phase,
    rel_here: u32,
    seq: usize,
    /// operation during which the packet was first (completely) transmitted
    first_op: Option<usize>,
}

#[derive(Clone, Copy, Debug, PartialEq, Eq)]
struct Owed {
    ptype: u8,
    pid: u16,
    /// expected reason class: Some(true)=success, Some(false)=0x92 not found
    success: bool,
    /// left over from a dead connection on which not even its bytes were accepted by the transport
    never_written: bool,
}

#[derive(Clone, Debug, Default)]
struct TrState {
    /// a complete client packet was accepted by write() after the last completed flush()
    unflushed_out: bool,
    connect_seen: bool,
    connected: Option<bool>, // Some(resumed)
    disconnect_done: bool,
    rm: u32,
    max_packet: Option<u32>,
    max_qos: Option<u8>,
    hostile: bool,
    new_id_packet_seen: bool,
    rel_sent_orders: Vec<u32>,
    keepalive_eff: u32,
    ended: bool,
}

pub struct Model<'a> {
    case: &'a Case,
    v: &'a View<'a>,
    pub viol: Vec<Violation>,
    pub stats: Stats,
    epoch: u32,
    ever_connected: bool,
    client_id: String,
    server_keepalive: Option<u16>,
    trs: Vec<TrState>,
    cur_tr: Option<usize>,
    flights: Vec<Flight>,
    req_matched: Vec<bool>,
    rec_counter: u32,
    pending_qos2: Vec<u16>,
    owed: VecDeque<Owed>,
    optional: VecDeque<Owed>,
    /// acknowledgements that were owed when the broker answered with a fresh session
    stale_acks: Vec<Owed>,
    /// acknowledgements written on the current transport that no completed flush has covered yet
    unflushed_acks: Vec<Owed>,
    expect_delivery: Option<usize>,
    /// transport on which the client has completely read a broker DISCONNECT that no operation
    /// has reported yet
    server_disconnect_read: Option<usize>,
    handle_flight: Vec<Option<usize>>,
    /// (request, session epoch) behind each handle: binds the handle to its flight once the packet
    /// is transmitted later than the operation that returned it
    handle_req: Vec<Option<(usize, u32)>>,
    handle_ambiguous: Vec<bool>,
    cur_op: Option<usize>,
    op_rejects: Vec<u8>,
    /// C11 state per transport: index of the op that killed the handle + touches at that time
    dead: Vec<Option<(usize, u64)>>,
    last_acked_seq: Option<usize>,
    ops_started: usize,
    epoch_first_op: usize,
    /// identifier allocations of the current session as far as the harness can tell
    allocs: u64,
    wraps_seen: u64,
}

fn multiset_eq(a: &[Prop], b: &[Prop]) -> bool {
    if a.len() != b.len() {
        return false;
    }
    let mut used = vec![false; b.len()];
    'outer: for x in a {
        for (i, y) in b.iter().enumerate() {
            if !used[i] && x == y {
                used[i] = true;
                continue 'outer;
            }
        }
        return false;
    }
    true
}

fn same_mod_dup(a: &[u8], b: &[u8]) -> bool {
    a.len() == b.len() && !a.is_empty() && (a[0] | 0x08) == (b[0] | 0x08) && a[1..] == b[1..]
}

impl<'a> Model<'a> {
    pub fn run(case: &'a Case, v: &'a View<'a>) -> (Vec<Violation>, Stats) {
        let ntr = v.trace.out.len();
        let mut m = Model {
            case,
            v,
            viol: Vec::new(),
            stats: Stats::default(),
            epoch: 0,
            ever_connected: false,
            client_id: case.cfg.client_id.clone(),
            server_keepalive: None,
            trs: vec![TrState::default(); ntr],
            cur_tr: None,
            flights: Vec::new(),
            req_matched: vec![false; v.trace.requests.len()],
            rec_counter: 0,
            pending_qos2: Vec::new(),
            owed: VecDeque::new(),
            optional: VecDeque::new(),
            stale_acks: Vec::new(),
            unflushed_acks: Vec::new(),
            expect_delivery: None,
            server_disconnect_read: None,
            handle_flight: Vec::new(),
            handle_req: Vec::new(),
            handle_ambiguous: Vec::new(),
            cur_op: None,
            op_rejects: Vec::new(),
            dead: vec![None; ntr],
            last_acked_seq: None,
            ops_started: 0,
            epoch_first_op: 0,
            allocs: 0,
            wraps_seen: 0,
        };
        m.walk();
        (m.viol, m.stats)
    }

    fn bad(&mut self, prop: &'static str, sig: impl Into<String>, detail: impl Into<String>) {
        let sig = sig.into();
        // one report per signature is enough
        if self.viol.iter().any(|x| x.prop == prop && x.sig == sig) {
            return;
        }
        self.viol.push(Violation { prop, sig, detail: detail.into() });
    }

    fn walk(&mut self) {
        if let Some(p) = &self.v.trace.panic {
            let loc = p.rsplit(" @ ").next().unwrap_or("").to_string();
            self.bad("PANIC", format!("panic/{loc}"), p.clone());
        }
        // wire-level checks that do not need the timeline
        for (tr, tv) in self.v.trs.iter().enumerate() {
            if let Some(f) = &tv.fatal {
                let detail = format!("transport {tr}: outbound stream is not a sequence of MQTT packets at offset {}: {f:?}", tv.tail_start);
                self.bad("C01", format!("C01/undecodable/{}", variant_name(f)), detail.clone());
                // nothing else can be decided about such a history: every history property fails
                for p in ["C02", "C03", "C04", "C05", "C06", "C07", "C09", "C13", "C14", "C15", "C16", "C17", "C18"] {
                    self.bad(p, format!("{p}/wire-undecodable"), detail.clone());
                }
            }
        }
        for i in 0..self.v.tl.len() {
            let item = self.v.tl[i].clone();
            match item {
                TL::ConnStart { tr, .. } => self.on_conn_start(tr),
                TL::ConnEnd { tr, res } => self.on_conn_end(tr, res),
                TL::OpStart { op } => self.on_op_start(op),
                TL::OpEnd { op } => self.on_op_end(op),
                TL::OutStart(_) => {}
                TL::OutDone(p) => {
                    let ptr = self.v.out[p].tr;
                    self.trs[ptr].unflushed_out = true;
                    self.on_out(p)
                }
                TL::InDone(idx, _) => self.on_in(idx),
                TL::Delivery { msg, .. } => self.on_delivery(msg),
                TL::Fault { tr, kind } => {
                    self.stats.faults += 1;
                    let _ = (tr, kind);
                }
                TL::Flush { tr, .. } => {
                    self.trs[tr].unflushed_out = false;
                    if Some(tr) == self.cur_tr {
                        self.unflushed_acks.clear();
                    }
                }
                TL::HandleEnd { tr, .. } => {
                    self.trs[tr].ended = true;
                }
                TL::Sample(ei) => self.on_sample(ei),
                TL::Advance(_) => {}
                TL::Burn(n) => self.allocs += n as u64,
            }
        }
        self.stats.out_packets = self.v.out.len() as u32;
        for ev in &self.v.trace.events {
            if let Event::Io(crate::sim::io::IoEvent::Write { .. }) = ev {}
        }
        // partial writes: a packet whose bytes were accepted in more than one write
        for p in &self.v.out {
            if p.ev_first != p.ev_last {
                self.stats.partial_writes += 1;
            }
        }
        for o in &self.v.trace.ops {
            if matches!(o.res, OpRes::Cancelled { .. }) {
                self.stats.cancels += 1;
            }
        }
    }

    // ------------------------------------------------------------------ connections

    fn unresolved(&self) -> impl Iterator<Item = (usize, &Flight)> {
        let e = self.epoch;
        self.flights.iter().enumerate().filter(move |(_, f)| f.epoch == e && f.phase != Phase::Done)
    }

    fn on_conn_start(&mut self, tr: usize) {
        {
            let bytes: usize = self.unresolved().filter(|(_, f)| f.phase == Phase::AwaitAck).map(|(_, f)| f.first_tx.as_ref().map(|b| b.len()).unwrap_or(0)).sum();
            let reqs = &self.v.trace.requests;
            let certain = !(0..reqs.len()).any(|q| {
                !self.req_matched[q]
                    && reqs[q].op >= self.epoch_first_op
                    && reqs[q].op < self.ops_started
                    && match &reqs[q].packet {
                        Some(Packet::Publish(pb)) => pb.qos > 0,
                        Some(Packet::Subscribe { .. }) | Some(Packet::Unsubscribe { .. }) => true,
                        _ => false,
                    }
                    && !matches!(&self.v.trace.ops[reqs[q].op].res, OpRes::Err(e) if Self::is_refusal(e))
            });
            self.stats.retained_at_conn_start.push((tr, bytes, certain));
        }
        self.cur_tr = Some(tr);
        self.cur_op = None;
        for f in self.flights.iter_mut() {
            f.tx_here = 0;
            f.sent_here = false;
            f.rel_here = 0;
        }
        // acknowledgements owed on the dead transport (or written there without a completed
        // flush) may or may not be repeated
        let mut o: VecDeque<Owed> = std::mem::take(&mut self.owed);
        self.optional.extend(self.unflushed_acks.drain(..));
        for w in o.iter_mut() {
            w.never_written = true;
        }
        self.optional.append(&mut o);
        if self.expect_delivery.is_some() {
            self.expect_delivery = None;
        }
    }

    fn on_conn_end(&mut self, tr: usize, res: ConnRes) {
        let had_inflight = self.unresolved().count() > 0;
        if res.is_ok() {
            let n = self.unresolved().count() as u32;
            let o = (self.owed.len() + self.optional.len()) as u32;
            self.stats.inflight_at_conn.push((tr, n, o));
        }
        match res {
            ConnRes::Connected => {
                self.stats.fresh += 1;
                if had_inflight {
                    self.stats.fresh_with_inflight += 1;
                }
                self.epoch += 1;
                self.allocs = 0;
                self.wraps_seen = 0;
                self.epoch_first_op = self.ops_started;
                self.ever_connected = true;
                self.pending_qos2.clear();
                // acknowledgements owed to the old broker session must not reach the new one (C05)
                self.stale_acks = self.owed.drain(..).chain(self.optional.drain(..)).chain(self.unflushed_acks.drain(..)).collect();
                self.trs[tr].connected = Some(false);
            }
            ConnRes::Reconnected => {
                self.stats.resumed += 1;
                if had_inflight {
                    self.stats.resumed_with_inflight += 1;
                }
                if !self.pending_qos2.is_empty() {
                    self.stats.reconnect_between_pub_and_rel += 1;
                }
                self.ever_connected = true;
                self.trs[tr].connected = Some(true);
            }
            _ => {
                self.stats.failed_handshakes += 1;
                self.trs[tr].ended = true;
            }
        }
        // what the broker said (from the consumed CONNACK)
        if res.is_ok() {
            let mut rm = 65535u32;
            let mut mp = None;
            let mut mq = None;
            let mut ska = None;
            let mut sp = false;
            for p in self.v.trace.inbound.iter().filter(|p| p.tr == tr) {
                if let Some(Packet::ConnAck { props, session_present, .. }) = &p.packet {
                    sp = *session_present;
                    for pr in props {
                        match pr {
                            Prop::ReceiveMaximum(v) => rm = *v as u32,
                            Prop::MaximumPacketSize(v) => mp = Some(*v),
                            Prop::MaximumQoS(v) => mq = Some(*v),
                            Prop::ServerKeepAlive(v) => ska = Some(*v),
                            Prop::AssignedClientId(s) => self.client_id = s.clone(),
                            _ => {}
                        }
                    }
                    break;
                }
            }
            let t = &mut self.trs[tr];
            t.rm = rm;
            t.max_packet = mp;
            t.max_qos = mq;
            if let Some(k) = ska {
                self.server_keepalive = Some(k);
            }
            t.keepalive_eff = ska.map(|k| k as u32).unwrap_or(self.case.cfg.keepalive as u32);
            // C05: the event mirrors the broker's answer
            let want = if sp { ConnRes::Reconnected } else { ConnRes::Connected };
            if res != want {
                self.bad("C05", format!("C05/event-mismatch/sp={sp}"), format!("broker answered session_present={sp} but connect() yielded {res:?}"));
            }
        }
    }

    // ------------------------------------------------------------------ ops

    fn on_op_start(&mut self, op: usize) {
        self.cur_op = Some(op);
        self.ops_started = op + 1;
        self.op_rejects.clear();
    }

    fn on_op_end(&mut self, op: usize) {
        let rec = &self.v.trace.ops[op];
        let res = rec.res.clone();
        let kind = rec.kind;
        let tr = rec.tr;
        // C18: failure reason codes are surfaced by the op that consumed the acknowledgement
        match (&res, self.op_rejects.first().copied()) {
            (OpRes::Err(ErrKind::Rejected(c)), Some(want)) => {
                if *c != want {
                    self.bad("C18", "C18/rejected-code-mismatch", format!("op {op} consumed an acknowledgement with reason {want:#x} but reported Rejected({c:#x})"));
                }
            }
            (OpRes::Err(ErrKind::Rejected(c)), None) => {
                if !self.trs[tr].hostile {
                    self.bad("C18", "C18/rejected-without-failing-ack", format!("op {op} reported Rejected({c:#x}) without having consumed a failing acknowledgement for a pending operation"));
                }
            }
            (r, Some(want)) => {
                if !self.trs[tr].hostile {
                    self.bad("C18", "C18/failure-code-not-surfaced", format!("op {op} ({kind:?}) consumed an acknowledgement with failure reason {want:#x} for a pending operation but returned {r:?}"));
                }
            }
            _ => {}
        }
        // a conformant broker sent only valid packets: nothing may be rejected as invalid
        if res == OpRes::Err(ErrKind::InvalidPacket) && !self.trs[tr].hostile && !self.tr_has_raw(tr) {
            self.bad("C04", "C04/valid-inbound-rejected", format!("op {op} ({kind:?}) returned InvalidPacket although the broker sent only valid packets"));
        }
        // poll()/recv()/drive() serve what the client owes; a local resource error there means an
        // owed acknowledgement (or a replay) is blocked behind missing arena space / slots
        if matches!(kind, OpKind::Poll | OpKind::Recv | OpKind::Drive)
            && matches!(res, OpRes::Err(ErrKind::BufferTooSmall | ErrKind::InflightExhausted | ErrKind::NotReady))
            && !self.trs[tr].hostile
        {
            if res == OpRes::Err(ErrKind::InflightExhausted) {
                // the only inbound packet that needs a new in-flight slot is a PUBREC (its PUBREL)
                self.bad("C06", "C06/qos2-exchange-dropped-no-release-slot", format!("op {op} ({kind:?}) returned InflightExhausted: a QoS 2 exchange lost its place because too many exchanges wait for PUBCOMP"));
            }
            if let Some(o) = self.owed.front().copied() {
                self.bad("C04", format!("C04/ack-blocked-by-resource-error/type={}", o.ptype), format!("op {op} ({kind:?}) returned {res:?} while the acknowledgement type {} for inbound id {} is owed: acknowledgements must not depend on free transmit arena space or slots", o.ptype, o.pid));
            } else {
                self.bad("C16", "C16/poll-failed-with-local-resource-error", format!("op {op} ({kind:?}) returned {res:?}"));
            }
        }
        // poll() gives up with "packet too large" although everything it owes fits the broker's
        // Maximum Packet Size: a PUBREL (5 bytes) under a limit of 5 or more
        if matches!(kind, OpKind::Poll | OpKind::Recv | OpKind::Drive) && res == OpRes::Err(ErrKind::PacketTooLarge) && !self.trs[tr].hostile {
            if let Some(m) = self.trs[tr].max_packet {
                let replays_fit = self
                    .unresolved()
                    .filter(|(_, f)| f.phase == Phase::AwaitAck && f.tx_here == 0)
                    .all(|(_, f)| f.first_tx.as_ref().is_some_and(|b| b.len() as u32 <= m));
                let rel = self.unresolved().find(|(_, f)| matches!(f.phase, Phase::Released { .. }) && f.rel_here == 0).map(|(_, f)| f.pid);
                if let (true, true, Some(pid), true) = (m >= 5, replays_fit, rel, self.owed.is_empty()) {
                    self.bad("C03", "C03/pubrel-refused-as-too-large", format!("op {op} ({kind:?}) returned PacketTooLarge with Maximum Packet Size {m} while the 5-byte PUBREL for id {pid} is owed and nothing else that is owed exceeds the limit"));
                    self.bad("C14", "C14/fitting-packet-refused/PUBREL", format!("op {op} ({kind:?}) returned PacketTooLarge with Maximum Packet Size {m} while only a PUBREL (5 bytes) for id {pid} is owed"));
                }
            }
        }
        // a publish whose payload serialisation fails must be refused (C19: invalid requests are
        // refused locally; C09: nothing the application did not provide may be sent)
        if kind == OpKind::Publish {
            let (ci, si) = rec.step;
            let failing = matches!(self.case.conns.get(ci).and_then(|c| c.steps.get(si)), Some(Step::Publish(ps)) if ps.via == 3);
            if failing {
                self.stats.failing_payloads += 1;
                // (any error is fine: the handle may be dead, the window closed, ... - but never Ok)
                if matches!(res, OpRes::Ok | OpRes::Handle(_)) {
                    self.bad("C19", "C19/failing-payload-accepted", format!("op {op}: publish returned {res:?} although its payload could not be serialised"));
                }
            }
        }
        // refused requests must leave no trace on the wire
        if let Some(r) = rec.request {
            if self.req_matched[r] {
                if let OpRes::Err(e) = &res {
                    let refusal = matches!(
                        e,
                        ErrKind::NotReady
                            | ErrKind::InvalidRequest
                            | ErrKind::PacketTooLarge
                            | ErrKind::BufferTooSmall
                            | ErrKind::InflightExhausted
                            | ErrKind::Disconnected
                            | ErrKind::Payload
                    );
                    if refusal && kind != OpKind::Disconnect {
                        let prop = match e {
                            ErrKind::NotReady | ErrKind::InflightExhausted => "C06",
                            ErrKind::PacketTooLarge => "C14",
                            ErrKind::BufferTooSmall | ErrKind::Payload => "C09",
                            _ => "C19",
                        };
                        self.bad(prop, format!("{prop}/refused-request-on-wire/{e:?}"), format!("op {op} returned {e:?} but its packet was (partly) transmitted"));
                    }
                }
            }
        }
        // Requests with identical content are interchangeable on the wire, and packets were credited
        // to the oldest eligible request as they appeared - also to cancelled requests that may
        // never have been enqueued. If this accepted request ended up without a packet, redo the
        // attribution inside its content class: packets go out in acceptance order, every accepted
        // member must get one, cancelled members only if there are packets to spare.
        if let Some(r) = rec.request {
            // (not while the request is legitimately queued behind a paced retransmission: its
            // packet is not on the wire yet)
            if matches!(res, OpRes::Handle(_)) && !self.req_matched[r] && self.deferred_by_window(tr).is_none_or(|seq| seq == usize::MAX) {
                self.rebalance_class(r);
            }
        }
        // an accepted request must have been put on the wire by the time the operation returns
        if let Some(r) = rec.request {
            // (an identifier-bearing request may be queued behind a retransmission that waits for
            // room in a Receive Maximum window smaller than on the previous connection)
            let queued_behind_replay = matches!(res, OpRes::Handle(_)) && self.deferred_by_window(tr).is_some();
            if res.is_done_ok() && !self.req_matched[r] && !self.trs[tr].hostile && self.dead[tr].is_none() && !queued_behind_replay {
                self.bad("C09", format!("C09/accepted-request-not-on-wire/{kind:?}"), format!("op {op} ({kind:?}) returned {res:?} but no matching packet was transmitted"));
            }
        }
        // C06: a QoS 1/2 publish beyond the broker's window is refused locally, not accepted and
        // queued. Everything the model still counts as unresolved (transmitted on this connection
        // or waiting to be retransmitted) occupies the window; what the model does not know about
        // (accepted, never on the wire) only makes the client stricter than this rule.
        if kind == OpKind::Publish && matches!(res, OpRes::Handle(_)) && self.trs[tr].connected.is_some() && !self.trs[tr].hostile {
            let own = rec.request.and_then(|r| self.flights.iter().position(|f| f.req == Some(r)));
            // (credited to an identical twin: the packet of that class that first went out during
            // this operation is the one to leave out; none such = this request is still queued)
            let own = own.or_else(|| {
                let r = rec.request?;
                self.flights.iter().position(|f| f.epoch == self.epoch && f.first_op == Some(op) && f.req.is_some_and(|q| self.same_wire_content(q, r)))
            });
            let occupied = { self
                .unresolved()
                .filter(|(i, f)| matches!(f.kind, FKind::Pub1 | FKind::Pub2) && Some(*i) != own)
                .count() as u32 };
            if occupied >= self.trs[tr].rm {
                self.bad("C06", "C06/accepted-beyond-window", format!("op {op}: publish accepted (handle returned) although {occupied} QoS 1/2 publishes of this session are unresolved and the Receive Maximum of this connection is {}", self.trs[tr].rm));
            }
        }
        // a handle must be backed by a flight that was completely transmitted within the op
        if let OpRes::Handle(h) = res {
            while self.handle_flight.len() <= h {
                self.handle_flight.push(None);
            }
            while self.handle_req.len() <= h {
                self.handle_req.push(None);
            }
            self.handle_req[h] = rec.request.map(|r| (r, self.epoch));
            // Requests with identical content cannot be told apart on the wire. If one of this
            // request's twins was cancelled or failed mid-way (it may or may not have been
            // enqueued), which packet backs this handle is a guess: its status is not judged.
            while self.handle_ambiguous.len() <= h {
                self.handle_ambiguous.push(false);
            }
            if let Some(r) = rec.request {
                self.handle_ambiguous[h] = self.has_uncertain_twin(r);
                if self.handle_ambiguous[h] {
                    self.stats.ambiguous_handles += 1;
                }
            }
            let fl = rec.request.and_then(|r| self.flights.iter().position(|f| f.req == Some(r)));
            match fl {
                Some(f) => self.handle_flight[h] = Some(f),
                None => {
                    if !self.trs[tr].hostile && self.deferred_by_window(tr).is_none() {
                        self.bad("C18", "C18/handle-without-packet", format!("op {op} returned a handle but no matching packet was transmitted during the operation"));
                    }
                }
            }
        }
        if let OpRes::Blocked { .. } = res {
            if matches!(kind, OpKind::Poll | OpKind::Recv) {
                self.on_idle(tr, op);
            }
        }
        self.c11_op(op);
        self.cur_op = None;
    }

    /// poll()/recv() is waiting for input: everything the client owes must be on the wire.
    fn tr_has_raw(&self, tr: usize) -> bool {
        self.v.trace.inbound.iter().any(|p| p.tr == tr && p.packet.is_none())
    }

    /// Sequence number of the first PUBLISH whose retransmission on resumed transport `tr` is
    /// (legitimately) waiting for room in the broker's Receive Maximum window, if any.
    fn deferred_by_window(&self, tr: usize) -> Option<usize> {
        if self.trs[tr].connected != Some(true) {
            return None;
        }
        let on_wire = self
            .unresolved()
            .filter(|(_, f)| matches!(f.kind, FKind::Pub1 | FKind::Pub2) && (f.tx_here > 0 || matches!(f.phase, Phase::Released { .. })))
            .count() as u32;
        if on_wire < self.trs[tr].rm {
            return None;
        }
        let first_flight = self
            .unresolved()
            .filter(|(_, f)| matches!(f.kind, FKind::Pub1 | FKind::Pub2) && f.phase == Phase::AwaitAck && f.tx_here == 0 && f.first_tr != tr)
            .map(|(_, f)| f.seq)
            .min();
        if first_flight.is_some() {
            return first_flight;
        }
        // a QoS>0 publish taken on an earlier connection that never reached the wire (its write
        // failed or it was cancelled) is retained as well and waits for the window like a replay;
        // it was accepted after everything that has been transmitted
        let queued = self.v.trace.requests.iter().enumerate().any(|(ri, r)| {
            !self.req_matched[ri]
                && r.op >= self.epoch_first_op
                && r.op < self.ops_started
                && self.cur_op != Some(r.op)
                && self.v.trace.ops[r.op].tr != tr
                && matches!(&r.packet, Some(Packet::Publish(pb)) if pb.qos > 0)
                && !matches!(&self.v.trace.ops[r.op].res, OpRes::Err(e) if Self::is_refusal(e))
        });
        queued.then_some(usize::MAX)
    }

    fn on_idle(&mut self, tr: usize, op: usize) {
        self.stats.idle_points += 1;
        let t = &self.trs[tr];
        if t.hostile || t.connected.is_none() || self.dead[tr].is_some() {
            return;
        }
        // the client waits for the broker although a packet it has handed to the transport was
        // never followed by a completed flush: on a buffering transport the broker never sees it
        if t.unflushed_out {
            self.bad("C16", "C16/waiting-with-unflushed-output", format!("op {op}: poll waits for input on transport {tr} but the last packet(s) written were not followed by a completed flush()"));
            self.trs[tr].unflushed_out = false;
            return;
        }
        let resumed = t.connected == Some(true);
        if resumed {
            let missing: Vec<(u16, FKind, Phase)> = self
                .unresolved()
                .filter(|(_, f)| match f.phase {
                    Phase::AwaitAck => f.tx_here == 0 && f.first_tr != tr,
                    Phase::Released { .. } => f.rel_here == 0,
                    Phase::Done => false,
                })
                .map(|(_, f)| (f.pid, f.kind, f.phase))
                .collect();
            // A resumed session may hold more unresolved publishes than this CONNACK's Receive
            // Maximum allows (the broker announced a smaller one than before): then C06 forbids
            // retransmitting them all at once, and everything accepted after the first deferred
            // PUBLISH may wait behind it (order, C02/C05). PUBRELs are never deferred.
            let first_deferred = self.deferred_by_window(tr);
            if first_deferred.is_some() {
                self.stats.replay_deferred_by_window += 1;
            }
            for (pid, kind, phase) in missing {
                if let Some(fd) = first_deferred {
                    let seq = self.unresolved().find(|(_, f)| f.pid == pid).map(|(_, f)| f.seq);
                    if phase == Phase::AwaitAck && seq.is_some_and(|q| q >= fd) {
                        continue;
                    }
                }
                let (prop, what) = match (kind, phase) {
                    (_, Phase::Released { .. }) => ("C03", "PUBREL"),
                    (FKind::Pub1, _) => ("C02", "PUBLISH-QoS1"),
                    (FKind::Pub2, _) => ("C03", "PUBLISH-QoS2"),
                    (FKind::Sub, _) => ("C05", "SUBSCRIBE"),
                    (FKind::Unsub, _) => ("C05", "UNSUBSCRIBE"),
                };
                self.bad(prop, format!("{prop}/not-replayed-on-resume/{what}"), format!("op {op}: poll waits for input on resumed transport {tr} but unacknowledged {what} id {pid} was not retransmitted"));
            }
        }
        if let Some(o) = self.owed.front().copied() {
            self.bad("C04", format!("C04/ack-not-sent/type={}", o.ptype), format!("op {op}: poll waits for input but the acknowledgement type {} for inbound id {} has not been sent", o.ptype, o.pid));
        }
        // same-connection first transmissions: anything accepted must be on the wire by now
        let unsent: Vec<u16> = self
            .unresolved()
            .filter(|(_, f)| f.phase == Phase::AwaitAck && f.first_tx.is_none())
            .map(|(_, f)| f.pid)
            .collect();
        let _ = unsent;
    }

    // ------------------------------------------------------------------ outbound packets

    fn req_content_matches(&self, r: &Request, p: &Packet, tr: usize) -> bool {
        let Some(want) = &r.packet else { return false };
        match (want, p) {
            (Packet::Publish(a), Packet::Publish(b)) => {
                // the downgrade decision is taken when the request is made, i.e. against the
                // Maximum QoS of the connection the operation ran on (a replay keeps its encoding)
                let req_tr = self.v.trace.ops.get(r.op).map(|o| o.tr).unwrap_or(tr);
                let t = &self.trs[req_tr];
                let exp_qos = match t.max_qos {
                    Some(m) if self.case.cfg.downgrade && a.qos > m => m,
                    _ => a.qos,
                };
                b.qos == exp_qos
                    && a.retain == b.retain
                    && a.topic == b.topic
                    && a.payload == b.payload
                    && multiset_eq(&a.props, &b.props)
            }
            (Packet::Subscribe { props: pa, filters: fa, .. }, Packet::Subscribe { props: pb, filters: fb, .. }) => {
                fa == fb && multiset_eq(pa, pb)
            }
            (Packet::Unsubscribe { props: pa, filters: fa, .. }, Packet::Unsubscribe { props: pb, filters: fb, .. }) => {
                fa == fb && multiset_eq(pa, pb)
            }
            (Packet::Disconnect { reason: ra, props: pa }, Packet::Disconnect { reason: rb, props: pb }) => {
                ra.unwrap_or(0) == rb.unwrap_or(0)
                    && multiset_eq(pa.as_deref().unwrap_or(&[]), pb.as_deref().unwrap_or(&[]))
            }
            _ => false,
        }
    }

    /// Would the two requests put identical packets (identifier aside) on the wire? For publishes
    /// the QoS is the one left after auto-downgrade on the connection the request was made on.
    fn same_wire_content(&self, a: usize, b: usize) -> bool {
        let reqs = &self.v.trace.requests;
        match (&reqs[a].packet, &reqs[b].packet) {
            (Some(Packet::Publish(x)), Some(Packet::Publish(y))) => {
                let eff = |r: &Request, p: &rc::Publish| {
                    let t = &self.trs[self.v.trace.ops[r.op].tr];
                    match t.max_qos {
                        Some(m) if self.case.cfg.downgrade && p.qos > m => m,
                        _ => p.qos,
                    }
                };
                eff(&reqs[a], x) == eff(&reqs[b], y) && x.retain == y.retain && x.topic == y.topic && x.payload == y.payload && multiset_eq(&x.props, &y.props)
            }
            (x, y) => x == y,
        }
    }

    /// Does the request have a twin with identical content in this session epoch whose operation
    /// was cancelled or failed mid-way (so that it may or may not have been enqueued)?
    fn has_uncertain_twin(&self, r: usize) -> bool {
        let reqs = &self.v.trace.requests;
        (0..reqs.len()).any(|q| {
            q != r
                && reqs[q].op >= self.epoch_first_op
                && reqs[q].op < self.ops_started
                && self.same_wire_content(q, r)
                && matches!(self.v.trace.ops[reqs[q].op].res, OpRes::Cancelled { .. } | OpRes::Err(ErrKind::Transport))
        })
    }

    fn rebalance_class(&mut self, r: usize) {
        let reqs = &self.v.trace.requests;
        let members: Vec<usize> = (0..reqs.len())
            .filter(|&q| {
                reqs[q].op >= self.epoch_first_op
                    && reqs[q].op < self.ops_started
                    && self.same_wire_content(q, r)
                    && !matches!(&self.v.trace.ops[reqs[q].op].res, OpRes::Err(e) if Self::is_refusal(e))
            })
            .collect();
        let accepted = |q: usize| matches!(self.v.trace.ops[reqs[q].op].res, OpRes::Handle(_)) || q == r;
        let mut flights: Vec<usize> = (0..self.flights.len())
            .filter(|&i| self.flights[i].epoch == self.epoch && self.flights[i].req.is_some_and(|q| members.contains(&q)))
            .collect();
        flights.sort_by_key(|&i| self.flights[i].seq);
        let mut need = members.iter().filter(|&&q| accepted(q)).count();
        if flights.len() < need {
            return; // really missing: reported by the caller
        }
        let mut left = flights.len();
        let mut next = 0usize;
        let mut assign: Vec<(usize, usize)> = Vec::new();
        for &q in &members {
            if left == 0 {
                break;
            }
            let acc = accepted(q);
            if acc || left > need {
                // a packet cannot belong to a request that was made after it went out
                if self.flights[flights[next]].first_op.is_some_and(|o| o < reqs[q].op) {
                    return;
                }
                assign.push((flights[next], q));
                next += 1;
                left -= 1;
            }
            if acc {
                need -= 1;
            }
        }
        for &q in &members {
            self.req_matched[q] = false;
        }
        for (fi, q) in assign {
            self.flights[fi].req = Some(q);
            self.req_matched[q] = true;
        }
        // handles of the class follow their requests
        for h in 0..self.handle_req.len() {
            if let Some((q, _)) = self.handle_req[h] {
                if members.contains(&q) {
                    self.handle_flight[h] = self.flights.iter().position(|f| f.req == Some(q));
                }
            }
        }
    }

    fn is_refusal(e: &ErrKind) -> bool {
        matches!(
            e,
            ErrKind::NotReady
                | ErrKind::InvalidRequest
                | ErrKind::PacketTooLarge
                | ErrKind::BufferTooSmall
                | ErrKind::InflightExhausted
                | ErrKind::Disconnected
                | ErrKind::Payload
        )
    }

    /// Find the oldest unmatched, eligible request of the current epoch with this content.
    /// A request is eligible while its operation is running, or after it ended in any way other
    /// than a local refusal.
    fn match_request(&mut self, p: &Packet, tr: usize, only_op: Option<usize>) -> Option<usize> {
        let r = self.find_request(p, tr, only_op);
        if let Some(ri) = r {
            self.req_matched[ri] = true;
        }
        r
    }

    fn find_request(&self, p: &Packet, tr: usize, only_op: Option<usize>) -> Option<usize> {
        // Requests with identical content are interchangeable on the wire. Among the candidates
        // prefer the oldest one that keeps first transmissions in request order (if any
        // order-preserving assignment exists this greedy choice finds it); only if there is none
        // take the oldest, which the order rule will then report.
        let last_op = self
            .flights
            .iter()
            .filter(|f| f.epoch == self.epoch)
            .filter_map(|f| f.req.map(|q| self.v.trace.requests[q].op))
            .max();
        let mut fallback = None;
        for (ri, r) in self.v.trace.requests.iter().enumerate() {
            if self.req_matched[ri] || r.op < self.epoch_first_op || r.op >= self.ops_started {
                continue;
            }
            if let Some(o) = only_op {
                if r.op != o {
                    continue;
                }
            }
            if self.cur_op != Some(r.op) {
                if let OpRes::Err(e) = &self.v.trace.ops[r.op].res {
                    if Self::is_refusal(e) {
                        continue;
                    }
                }
            }
            if self.req_content_matches(r, p, tr) {
                let id_bearing = p.pid().is_some();
                if !id_bearing || last_op.is_none_or(|l| r.op > l) {
                    return Some(ri);
                }
                if fallback.is_none() {
                    fallback = Some(ri);
                }
            }
        }
        fallback
    }

    /// A packet that matches no eligible request: was it a locally refused one?
    fn refused_twin(&self, p: &Packet, tr: usize) -> Option<ErrKind> {
        for r in self.v.trace.requests.iter() {
            if r.op >= self.ops_started || self.cur_op == Some(r.op) {
                continue;
            }
            if let OpRes::Err(e) = &self.v.trace.ops[r.op].res {
                if Self::is_refusal(e) && self.req_content_matches(r, p, tr) {
                    return Some(*e);
                }
            }
        }
        None
    }

    fn on_out(&mut self, pi: usize) {
        let p = self.v.out[pi].clone();
        let tr = p.tr;
        let first_on_tr = self.v.trs[tr].pkts.first() == Some(&pi);
        // ---- C01: syntax
        for a in &p.anomalies {
            let retrans = self.is_retransmission(&p.packet, tr);
            let sig = match a {
                Anomaly::Flags { ptype, flags } => {
                    format!("C01/fixed-header-flags/type={},flags={:04b},retransmission={}", rc::type_name(*ptype), flags, retrans)
                }
                other => format!("C01/anomaly/{}", variant_name(other)),
            };
            self.bad("C01", sig, format!("transport {tr} packet #{pi} {}: {a:?} bytes={:02x?}", p.packet.type_name(), &self.v.bytes(pi)[..self.v.bytes(pi).len().min(24)]));
        }
        if self.trs[tr].disconnect_done {
            self.bad("C01", "C01/bytes-after-disconnect", format!("transport {tr}: {} transmitted after DISCONNECT", p.packet.type_name()));
        }
        if first_on_tr != matches!(p.packet, Packet::Connect(_)) {
            self.bad("C01", format!("C01/connect-position/{}", p.packet.type_name()), format!("transport {tr}: CONNECT must be exactly the first packet (packet #{pi} is {})", p.packet.type_name()));
        }
        // C14: nothing longer than the current CONNACK's Maximum Packet Size, whatever the type
        if !matches!(p.packet, Packet::Connect(_)) {
            self.size_check(tr, pi);
        }
        if self.trs[tr].hostile {
            return;
        }
        match &p.packet {
            Packet::Connect(c) => self.on_connect(tr, c),
            Packet::Publish(pb) if pb.qos == 0 => {
                // written directly by the publish op
                match self.match_request(&p.packet, tr, self.cur_op) {
                    Some(_) => {}
                    None => self.bad("C09", "C09/qos0-publish-mismatch", format!("transport {tr}: QoS 0 PUBLISH on the wire does not match the request of the running operation: {:?}", short(&p.packet))),
                }
            }
            Packet::Publish(_) | Packet::Subscribe { .. } | Packet::Unsubscribe { .. } => {
                self.on_request_packet(pi);
            }
            Packet::PubRel(a) => {
                self.on_pubrel(tr, a.pid, a.code());
            }
            Packet::PubAck(a) => self.on_client_ack(tr, 4, a),
            Packet::PubRec(a) => self.on_client_ack(tr, 5, a),
            Packet::PubComp(a) => self.on_client_ack(tr, 7, a),
            Packet::PingReq => {
                if self.trs[tr].keepalive_eff == 0 && self.trs[tr].connected.is_some() {
                    self.bad("C10", "C10/ping-with-keepalive-zero", format!("transport {tr}: PINGREQ although the effective keep-alive is 0"));
                }
            }
            Packet::Disconnect { .. } => {
                self.trs[tr].disconnect_done = true;
                match self.match_request(&p.packet, tr, self.cur_op) {
                    Some(_) => {}
                    None => self.bad("C09", "C09/disconnect-mismatch", format!("transport {tr}: DISCONNECT on the wire does not match the running request: {:?}", p.packet)),
                }
            }
            other => {
                self.bad("C01", format!("C01/illegal-type/{}", other.type_name()), format!("transport {tr}: a client must never send {}", other.type_name()));
            }
        }
    }

    fn size_check(&mut self, tr: usize, pi: usize) {
        if let Some(max) = self.trs[tr].max_packet {
            let len = self.v.out[pi].end - self.v.out[pi].start;
            if len as u64 > max as u64 {
                self.bad("C14", format!("C14/oversize-packet-sent/{}", self.v.out[pi].packet.type_name()), format!("transport {tr}: {} of {len} bytes exceeds the broker's Maximum Packet Size {max}", self.v.out[pi].packet.type_name()));
            }
        }
    }

    /// The packet belongs to a request that was accepted on an earlier connection.
    fn is_retransmission(&self, p: &Packet, tr: usize) -> bool {
        match p.pid() {
            Some(pid) => {
                self.unresolved().any(|(_, f)| f.pid == pid && f.first_tx.is_some())
                    || self.find_request(p, tr, None).is_some_and(|ri| self.v.trace.ops[self.v.trace.requests[ri].op].tr != tr)
            }
            None => false,
        }
    }

    fn on_connect(&mut self, tr: usize, c: &rc::Connect) {
        self.trs[tr].connect_seen = true;
        let cfg = &self.case.cfg;
        let want_clean = !self.ever_connected;
        if c.clean_start != want_clean {
            self.bad("C05", format!("C05/clean-start/{}", c.clean_start), format!("transport {tr}: CONNECT clean_start={} but a connect() has {} succeeded before", c.clean_start, if self.ever_connected { "already" } else { "never" }));
        }
        if c.client_id != self.client_id {
            self.bad("C05", "C05/client-id", format!("transport {tr}: CONNECT client id {:?}, expected {:?}", c.client_id, self.client_id));
        }
        let ka_ok = c.keep_alive == cfg.keepalive || Some(c.keep_alive) == self.server_keepalive;
        if !ka_ok {
            self.bad("C09", "C09/connect-keepalive", format!("CONNECT keep-alive {} (configured {}, server {:?})", c.keep_alive, cfg.keepalive, self.server_keepalive));
        }
        let mut mps = None;
        let mut sei = None;
        let mut rmax = None;
        for p in &c.props {
            match p {
                Prop::MaximumPacketSize(v) => mps = Some(*v),
                Prop::SessionExpiry(v) => sei = Some(*v),
                Prop::ReceiveMaximum(v) => rmax = Some(*v),
                _ => {}
            }
        }
        if mps != Some(cfg.rx as u32) {
            self.bad("C14", "C14/connect-max-packet-size", format!("CONNECT advertises Maximum Packet Size {mps:?}, receive buffer is {}", cfg.rx));
        }
        if sei.unwrap_or(0) != cfg.session_expiry {
            self.bad("C09", "C09/connect-session-expiry", format!("CONNECT session expiry {sei:?}, configured {}", cfg.session_expiry));
        }
        if rmax == Some(0) {
            self.bad("C09", "C09/connect-receive-maximum-zero", "CONNECT Receive Maximum 0".to_string());
        }
        let want_will = cfg.will.as_ref().map(|w| rc::Will {
            qos: w.qos,
            retain: w.retain,
            props: w.props.clone(),
            topic: w.topic.name(),
            payload: w.payload.bytes(),
        });
        let will_ok = match (&want_will, &c.will) {
            (None, None) => true,
            (Some(a), Some(b)) => a.qos == b.qos && a.retain == b.retain && a.topic == b.topic && a.payload == b.payload && multiset_eq(&a.props, &b.props),
            _ => false,
        };
        if !will_ok {
            self.bad("C09", "C09/connect-will", format!("CONNECT will {:?} differs from configured {:?}", c.will, want_will));
        }
        let (wu, wp) = match &cfg.auth {
            Some((u, p)) => (Some(u.clone()), Some(p.clone())),
            None => (None, None),
        };
        if c.user_name != wu || c.password != wp {
            self.bad("C09", "C09/connect-auth", format!("CONNECT user/password {:?}/{:?} differ from configured", c.user_name, c.password));
        }
    }

    fn on_request_packet(&mut self, pi: usize) {
        let p = self.v.out[pi].clone();
        let tr = p.tr;
        let pid = p.packet.pid().unwrap_or(0);
        let kind = match &p.packet {
            Packet::Publish(pb) if pb.qos == 1 => FKind::Pub1,
            Packet::Publish(_) => FKind::Pub2,
            Packet::Subscribe { .. } => FKind::Sub,
            _ => FKind::Unsub,
        };
        let dup = matches!(&p.packet, Packet::Publish(pb) if pb.dup);
        let bytes = self.v.bytes(pi).to_vec();
        let resumed = self.trs[tr].connected == Some(true);
        // retransmission of a live flight?
        let live = self.unresolved().find(|(_, f)| f.pid == pid).map(|(i, _)| i);
        if let Some(fi) = live {
            let f = self.flights[fi].clone();
            let what = kind_name(f.kind);
            let prop = match f.kind {
                FKind::Pub1 => "C02",
                FKind::Pub2 => "C03",
                _ => "C05",
            };
            if f.kind != kind {
                self.bad("C07", format!("C07/id-reuse/{}-while-{}", kind_name(kind), what), format!("transport {tr}: {} uses packet id {pid} which is still in use by an unacknowledged {what}", kind_name(kind)));
                return;
            }
            if let Phase::Released { .. } = f.phase {
                // could also be a new request colliding with the id (C07) — decide by content
                if f.first_tx.as_ref().is_some_and(|b| same_mod_dup(b, &bytes)) {
                    self.bad("C03", "C03/publish-after-pubrec", format!("transport {tr}: QoS 2 PUBLISH id {pid} transmitted again after its PUBREC was received"));
                } else {
                    self.bad("C07", "C07/id-reuse/PUBLISH-while-awaiting-PUBCOMP", format!("transport {tr}: packet id {pid} reused while a QoS 2 exchange with that id waits for PUBCOMP"));
                }
                return;
            }
            let same = f.first_tx.as_ref().map(|b| same_mod_dup(b, &bytes));
            if same == Some(false) {
                // different content under a live id: either corruption of the retained bytes
                // (C17) or a new request that was given an id still in use (C07)
                if self.match_request(&p.packet, tr, None).is_some() {
                    self.bad("C07", format!("C07/id-reuse/{what}"), format!("transport {tr}: new {what} was given packet id {pid} which is still in flight"));
                } else {
                    let detail = format!("transport {tr}: retransmission of {what} id {pid} differs from its first transmission beyond the DUP bit:\n first={:02x?}\n now  ={:02x?}", f.first_tx.as_ref().unwrap(), bytes);
                    self.bad("C17", format!("C17/retransmission-differs/{what}"), detail.clone());
                    // the same event under the other properties it breaks: replays are byte-identical
                    // (C02/C03) and every outbound packet decodes to what was requested (C09)
                    self.bad(prop, format!("{prop}/retransmission-differs/{what}"), detail.clone());
                    self.bad("C09", format!("C09/retransmission-content/{what}"), detail);
                }
                return;
            }
            if f.tx_here >= 1 {
                self.bad(prop, format!("{prop}/retransmitted-within-connection/{what}"), format!("transport {tr}: {what} id {pid} completely transmitted twice on one connection"));
            }
            if f.first_tx.is_some() {
                // genuine retransmission on a later transport
                self.stats.replays += 1;
                if !resumed && self.trs[tr].connected.is_some() {
                    self.bad("C05", format!("C05/replay-on-fresh-session/{what}"), format!("transport {tr}: {what} id {pid} retransmitted although the broker started a fresh session"));
                }
                if matches!(f.kind, FKind::Pub1 | FKind::Pub2) && !dup {
                    self.bad(prop, format!("{prop}/replay-without-dup"), format!("transport {tr}: PUBLISH id {pid} retransmitted without DUP"));
                }
                if self.trs[tr].new_id_packet_seen {
                    self.bad("C05", format!("C05/replay-after-new-packet/{what}"), format!("transport {tr}: {what} id {pid} retransmitted after a new identifier-bearing packet was sent on this connection"));
                }
                // order of replays = acceptance order
                let later_already = self.unresolved().any(|(_, g)| g.seq > f.seq && g.tx_here > 0 && g.first_tr != tr && g.phase == Phase::AwaitAck);
                if later_already {
                    self.bad(prop, format!("{prop}/replay-order"), format!("transport {tr}: {what} id {pid} retransmitted after a message that was accepted later"));
                }
            } else {
                // first complete transmission of a flight that was only partially sent before
                if dup && f.first_tr == tr {
                    self.bad(prop, format!("{prop}/dup-on-first-transmission"), format!("transport {tr}: first transmission of id {pid} carries DUP"));
                }
            }
            let fm = &mut self.flights[fi];
            fm.tx_here += 1;
            fm.sent_here = true;
            if fm.first_tx.is_none() {
                fm.first_tx = Some(bytes);
            }
            self.quota_check(tr, pid);
            return;
        }
        // ---- first appearance of this identifier: a new flight
        if pid == 0 {
            self.bad("C07", "C07/zero-id", format!("transport {tr}: {} with packet identifier 0", kind_name(kind)));
        }
        let req = self.match_request(&p.packet, tr, None);
        let what = kind_name(kind);
        match req {
            None => {
                // stale (acknowledged / discarded) packet, duplicate or invention
                let stale = self.flights.iter().rev().find(|f| f.pid == pid && f.kind == kind && f.first_tx.as_ref().is_some_and(|b| same_mod_dup(b, &bytes))).cloned();
                match stale {
                    Some(f) if f.epoch != self.epoch => self.bad("C05", format!("C05/discarded-packet-transmitted/{what}"), format!("transport {tr}: {what} id {pid} from a discarded session was transmitted after a fresh session started")),
                    Some(_) => {
                        let prop = match kind {
                            FKind::Pub1 => "C02",
                            FKind::Pub2 => "C03",
                            _ => "C05",
                        };
                        self.bad(prop, format!("{prop}/retransmitted-after-ack/{what}"), format!("transport {tr}: {what} id {pid} transmitted again after its final acknowledgement was received"))
                    }
                    None => match self.refused_twin(&p.packet, tr) {
                        Some(e) => {
                            let prop = match e {
                                ErrKind::NotReady | ErrKind::InflightExhausted => "C06",
                                ErrKind::PacketTooLarge => "C14",
                                ErrKind::BufferTooSmall | ErrKind::Payload => "C09",
                                _ => "C19",
                            };
                            self.bad(prop, format!("{prop}/refused-request-on-wire/{e:?}"), format!("transport {tr}: {what} id {pid} was transmitted although its request had been refused with {e:?}"))
                        }
                        None => self.bad("C09", format!("C09/unrequested-packet/{what}"), format!("transport {tr}: {what} id {pid} on the wire matches no pending request of this session: {:?}", short(&p.packet))),
                    },
                }
                return;
            }
            Some(ri) => {
                let r = &self.v.trace.requests[ri];
                // order of first transmissions = order of requests
                // (which of several identical requests a packet belongs to is a guess as soon as one
                // of them was cancelled or failed mid-way: such classes are not judged)
                let later = self.flights.iter().any(|f| f.epoch == self.epoch && f.req.is_some_and(|q| self.v.trace.requests[q].op > r.op && !self.has_uncertain_twin(q)));
                if later && !self.has_uncertain_twin(ri) {
                    self.bad(if kind == FKind::Pub1 { "C02" } else { "C03" }, "C02/first-transmission-order", format!("transport {tr}: {what} id {pid} (op {}) first transmitted after a packet that was requested later", r.op));
                }
                let req_tr = self.v.trace.ops[r.op].tr;
                if dup && req_tr == tr {
                    let prop = if kind == FKind::Pub1 { "C02" } else { "C03" };
                    self.bad(prop, format!("{prop}/dup-on-first-transmission"), format!("transport {tr}: first transmission of PUBLISH id {pid} carries DUP"));
                }
                if req_tr != tr {
                    // accepted on an earlier connection, never on the wire before: behaves as replay
                    if self.trs[tr].connected == Some(false) {
                        self.bad("C05", format!("C05/discarded-packet-transmitted/{what}"), format!("transport {tr}: {what} accepted before the fresh session was transmitted"));
                    }
                    if self.trs[tr].new_id_packet_seen {
                        self.bad("C05", format!("C05/replay-after-new-packet/{what}"), format!("transport {tr}: {what} id {pid} accepted on an earlier connection was sent after a new identifier-bearing packet"));
                    }
                } else {
                    self.trs[tr].new_id_packet_seen = true;
                    // C05: before any new identifier-bearing packet all replays must be complete
                    if resumed {
                        let missing: Vec<u16> = self
                            .unresolved()
                            .filter(|(_, f)| match f.phase {
                                Phase::AwaitAck => f.tx_here == 0 && f.first_tr != tr,
                                Phase::Released { .. } => f.rel_here == 0,
                                Phase::Done => false,
                            })
                            .map(|(_, f)| f.pid)
                            .collect();
                        if !missing.is_empty() {
                            self.bad("C05", "C05/new-packet-before-replay", format!("transport {tr}: new {what} id {pid} sent before unacknowledged ids {missing:?} were retransmitted"));
                        }
                    }
                }
                if self.unresolved().any(|(_, f)| f.pid == pid) {
                    unreachable!();
                }
                self.stats.max_flights = self.stats.max_flights.max(self.unresolved().count() as u32 + 1);
                if kind == FKind::Pub2 {
                    self.stats.qos2_flights += 1;
                    if self.trs[tr].rm <= 4 {
                        self.stats.small_rm_qos2 = true;
                    }
                }
                self.allocs += 1;
                if self.allocs / 65535 > self.wraps_seen {
                    self.wraps_seen = self.allocs / 65535;
                    self.stats.wraps += 1;
                    if self.unresolved().count() > 0 {
                        self.stats.wraps_with_inflight += 1;
                    }
                }
                let seq = self.flights.len();
                self.flights.push(Flight {
                    pid,
                    kind,
                    req: Some(ri),
                    epoch: self.epoch,
                    first_tx: Some(bytes),
                    first_tr: tr,
                    tx_here: 1,
                    sent_here: true,
                    phase: Phase::AwaitAck,
                    rel_here: 0,
                    seq,
                    first_op: self.cur_op,
                });
                self.quota_check(tr, pid);
            }
        }
    }

    /// C06: called when a QoS>0 PUBLISH has just been completely transmitted.
    fn quota_check(&mut self, tr: usize, pid: u16) {
        let is_pub = self.unresolved().any(|(_, f)| f.pid == pid && matches!(f.kind, FKind::Pub1 | FKind::Pub2));
        if !is_pub {
            return;
        }
        let rm = self.trs[tr].rm;
        if self.trs[tr].connected.is_none() {
            return;
        }
        let n = self.unresolved().filter(|(_, f)| matches!(f.kind, FKind::Pub1 | FKind::Pub2) && f.sent_here).count() as u32;
        if n > rm {
            let q2 = self.unresolved().filter(|(_, f)| f.kind == FKind::Pub2 && f.sent_here && matches!(f.phase, Phase::Released { .. })).count();
            let replay = self.trs[tr].connected == Some(true) && self.unresolved().any(|(_, f)| f.sent_here && f.first_tr != tr);
            self.bad("C06", format!("C06/receive-maximum-exceeded/awaiting-pubcomp={},replayed={}", q2 > 0, replay), format!("transport {tr}: PUBLISH id {pid} is unresolved publish #{n} on this connection, Receive Maximum is {rm}"));
        }
    }

    fn on_pubrel(&mut self, tr: usize, pid: u16, code: u8) {
        let fi = self.unresolved().find(|(_, f)| f.pid == pid && f.kind == FKind::Pub2).map(|(i, _)| i);
        let Some(fi) = fi else {
            if self.flights.iter().any(|f| f.epoch < self.epoch && f.pid == pid && f.kind == FKind::Pub2 && matches!(f.phase, Phase::Released { .. })) {
                self.bad("C05", "C05/discarded-packet-transmitted/PUBREL", format!("transport {tr}: PUBREL id {pid} belongs to an exchange of the previous broker session; the broker reported a fresh session, so it had to be discarded"));
            }
            self.bad("C03", "C03/pubrel-without-exchange", format!("transport {tr}: PUBREL id {pid} but no QoS 2 exchange with that id is open"));
            return;
        };
        let f = self.flights[fi].clone();
        let Phase::Released { order } = f.phase else {
            self.bad("C03", "C03/pubrel-before-pubrec", format!("transport {tr}: PUBREL id {pid} sent before a successful PUBREC was received"));
            return;
        };
        if code != 0 && code != 0x92 {
            self.bad("C03", "C03/pubrel-reason", format!("PUBREL id {pid} reason {code:#x}"));
        }
        if f.rel_here >= 1 {
            self.bad("C03", "C03/pubrel-twice-on-connection", format!("transport {tr}: PUBREL id {pid} completely transmitted twice on one connection"));
        }
        if f.rel_here == 0 && self.flights[fi].first_tr != tr || self.flights[fi].rel_here > 0 {
            self.stats.rel_replays += 1;
        }
        if let Some(&last) = self.trs[tr].rel_sent_orders.last() {
            if order < last {
                self.bad("C03", "C03/pubrel-order", format!("transport {tr}: PUBREL id {pid} (PUBREC #{order}) sent after the PUBREL of a PUBREC received later (#{last})"));
            }
        }
        self.trs[tr].rel_sent_orders.push(order);
        self.flights[fi].rel_here += 1;
    }

    fn on_client_ack(&mut self, tr: usize, ptype: u8, a: &rc::Ack) {
        let got_success = a.code() < 0x80;
        let expected = self.owed.iter().chain(self.optional.iter()).any(|w| w.ptype == ptype && w.pid == a.pid);
        if !expected {
            if let Some(i) = self.stale_acks.iter().position(|w| w.ptype == ptype && w.pid == a.pid) {
                self.stale_acks.remove(i);
                self.bad("C05", format!("C05/discarded-packet-transmitted/{}", rc::type_name(ptype)), format!("transport {tr}: {} id {} answers a packet of the previous broker session; the broker reported a fresh session, so it had to be discarded", rc::type_name(ptype), a.pid));
            }
        }
        // prefer what is owed on this connection; acknowledgements left over from a dead transport
        // may be repeated (in order) or skipped
        if !self.owed.front().is_some_and(|w| w.ptype == ptype && w.pid == a.pid) {
            if let Some(i) = self.optional.iter().position(|o| o.ptype == ptype && o.pid == a.pid) {
                let o = self.optional[i];
                self.optional.drain(..=i);
                self.unflushed_acks.push(o);
                self.ack_reason_check(tr, &o, a);
                return;
            }
        }
        match self.owed.front().copied() {
            Some(o) if o.ptype == ptype && o.pid == a.pid => {
                self.owed.pop_front();
                self.unflushed_acks.push(o);
                self.ack_reason_check(tr, &o, a);
            }
            Some(o) => {
                let later = self.owed.iter().any(|w| w.ptype == ptype && w.pid == a.pid);
                if later {
                    self.bad("C04", "C04/ack-order", format!("transport {tr}: {} id {} sent before the acknowledgement owed earlier ({} id {})", rc::type_name(ptype), a.pid, rc::type_name(o.ptype), o.pid));
                    if let Some(i) = self.owed.iter().position(|w| w.ptype == ptype && w.pid == a.pid) {
                        self.owed.remove(i);
                    }
                } else {
                    self.bad("C04", format!("C04/unexpected-ack/{}", rc::type_name(ptype)), format!("transport {tr}: {} id {} (success={got_success}) is not owed", rc::type_name(ptype), a.pid));
                }
            }
            None => {
                self.bad("C04", format!("C04/unexpected-ack/{}", rc::type_name(ptype)), format!("transport {tr}: {} id {} (success={got_success}) is not owed", rc::type_name(ptype), a.pid));
            }
        }
    }

    fn ack_reason_check(&mut self, tr: usize, o: &Owed, a: &rc::Ack) {
        let code = a.code();
        let ok = if o.success { code < 0x80 } else { code == 0x92 };
        if !ok {
            self.bad("C04", format!("C04/ack-reason/{}", rc::type_name(o.ptype)), format!("transport {tr}: {} id {} carries reason {code:#x}, expected {}", rc::type_name(o.ptype), o.pid, if o.success { "success" } else { "0x92 packet identifier not found" }));
        }
    }

    // ------------------------------------------------------------------ inbound packets

    fn on_in(&mut self, idx: usize) {
        let p = self.v.trace.inbound[idx].clone();
        let tr = p.tr;
        if let Some(prev) = self.expect_delivery.take() {
            self.bad("C04", "C04/publish-not-delivered", format!("inbound PUBLISH #{prev} was consumed but not surfaced to the application before the next packet"));
        }
        let Some(pk) = &p.packet else {
            self.trs[tr].hostile = true;
            return;
        };
        if self.trs[tr].hostile {
            return;
        }
        let in_op = self.cur_op;
        match pk {
            Packet::ConnAck { .. } => {}
            Packet::Publish(pb) => {
                match pb.qos {
                    0 => {
                        self.expect_delivery = Some(idx);
                    }
                    1 => {
                        self.owed.push_back(Owed { ptype: 4, pid: pb.pid.unwrap(), success: true, never_written: false });
                        self.expect_delivery = Some(idx);
                    }
                    _ => {
                        let pid = pb.pid.unwrap();
                        self.owed.push_back(Owed { ptype: 5, pid, success: true, never_written: false });
                        if self.pending_qos2.contains(&pid) {
                            self.stats.inbound_qos2_dups += 1;
                        } else {
                            self.pending_qos2.push(pid);
                            self.expect_delivery = Some(idx);
                        }
                        self.stats.max_inbound_inflight = self.stats.max_inbound_inflight.max(self.pending_qos2.len() as u32);
                    }
                }
            }
            Packet::PubRel(a) => {
                let pending = self.pending_qos2.iter().position(|x| *x == a.pid);
                if let Some(i) = pending {
                    self.pending_qos2.remove(i);
                }
                // A successful PUBCOMP that the client owed when the previous connection died and of
                // which the transport never accepted a complete copy has not been communicated to the
                // broker: the client forgot the identifier when it read the first PUBREL, so if it
                // also dropped the owed PUBCOMP it would now deny an exchange that completed. The
                // owed answer becomes mandatory (and comes first), this PUBREL gets its own answer.
                if pending.is_none() {
                    if let Some(i) = self.optional.iter().position(|o| o.ptype == 7 && o.pid == a.pid && o.success && o.never_written) {
                        let mut o = self.optional.remove(i).unwrap();
                        o.never_written = false;
                        self.owed.push_back(o);
                        self.stats.pubcomp_owed_across_reconnect += 1;
                    }
                }
                self.owed.push_back(Owed { ptype: 7, pid: a.pid, success: pending.is_some(), never_written: false });
            }
            Packet::PubAck(a) => self.on_broker_ack(in_op, FKind::Pub1, a.pid, a.code(), false),
            Packet::PubRec(a) => self.on_broker_ack(in_op, FKind::Pub2, a.pid, a.code(), false),
            Packet::PubComp(a) => self.on_broker_ack(in_op, FKind::Pub2, a.pid, a.code(), true),
            Packet::SubAck { pid, codes, .. } => {
                let c = codes.iter().copied().find(|c| *c >= 0x80).unwrap_or(0);
                self.on_broker_ack(in_op, FKind::Sub, *pid, c, false)
            }
            Packet::UnsubAck { pid, codes, .. } => {
                let c = codes.iter().copied().find(|c| *c >= 0x80).unwrap_or(0);
                self.on_broker_ack(in_op, FKind::Unsub, *pid, c, false)
            }
            Packet::PingResp => {}
            Packet::Disconnect { .. } => self.server_disconnect_read = Some(tr),
            _ => {
                self.trs[tr].hostile = true;
            }
        }
    }

    fn on_broker_ack(&mut self, _op: Option<usize>, kind: FKind, pid: u16, code: u8, comp: bool) {
        let fi = self
            .unresolved()
            .find(|(_, f)| {
                f.pid == pid
                    && f.kind == kind
                    && match (kind, comp, f.phase) {
                        (FKind::Pub2, true, Phase::Released { .. }) => true,
                        (FKind::Pub2, false, Phase::AwaitAck) => true,
                        (FKind::Pub2, _, _) => false,
                        (_, _, Phase::AwaitAck) => true,
                        _ => false,
                    }
            })
            .map(|(i, _)| i);
        let Some(fi) = fi else {
            self.stats.stale_acks += 1;
            return;
        };
        if code >= 0x80 {
            self.op_rejects.push(code);
            self.stats.failure_codes += 1;
        }
        let seq = self.flights[fi].seq;
        if let Some(last) = self.last_acked_seq {
            if seq < last {
                self.stats.acks_out_of_order += 1;
            }
        }
        self.last_acked_seq = Some(seq);
        let f = &mut self.flights[fi];
        if kind == FKind::Pub2 && !comp {
            if code >= 0x80 {
                f.phase = Phase::Done;
            } else {
                f.phase = Phase::Released { order: self.rec_counter };
                self.rec_counter += 1;
                let open = self.flights.iter().filter(|g| g.epoch == self.epoch && g.kind == FKind::Pub2 && g.phase != Phase::Done).count();
                if open >= 2 {
                    self.stats.qos2_overlap_ooo += 1;
                }
            }
        } else {
            f.phase = Phase::Done;
        }
    }

    fn on_delivery(&mut self, msg: usize) {
        self.stats.deliveries += 1;
        let d = &self.v.trace.deliveries[msg];
        let Some(idx) = self.expect_delivery.take() else {
            let tr = self.cur_tr.unwrap_or(0);
            if !self.trs[tr].hostile {
                self.bad("C04", "C04/unexpected-delivery", format!("message {:?} delivered but no inbound PUBLISH awaiting delivery was consumed (duplicate or invented delivery)", d.topic));
            }
            return;
        };
        let Some(Packet::Publish(pb)) = &self.v.trace.inbound[idx].packet else { return };
        let props: Vec<Prop> = d.props.iter().filter_map(|p| p.clone().ok()).collect();
        let props_ok = d.props.iter().all(|p| p.is_ok()) && props == pb.props;
        if d.topic != pb.topic || d.payload != pb.payload || d.qos != pb.qos || d.retain != pb.retain || !props_ok {
            let what = if d.topic != pb.topic {
                "topic"
            } else if d.payload != pb.payload {
                "payload"
            } else if d.qos != pb.qos {
                "qos"
            } else if d.retain != pb.retain {
                "retain"
            } else {
                "properties"
            };
            self.bad("C04", format!("C04/delivery-differs/{what}"), format!("delivered {:?} differs from the PUBLISH sent by the broker {:?}", d, short(&Packet::Publish(pb.clone()))));
        }
        let rt = pb.props.iter().find_map(|p| if let Prop::ResponseTopic(t) = p { Some(t.clone()) } else { None });
        let cd = pb.props.iter().find_map(|p| if let Prop::CorrelationData(t) = p { Some(t.clone()) } else { None });
        if d.response_topic != rt || d.correlation_data != cd {
            self.bad("C20", "C20/accessor-mismatch", format!("response_topic()/correlation_data() = {:?}/{:?}, sent {:?}/{:?}", d.response_topic, d.correlation_data, rt, cd));
        }
    }

    // ------------------------------------------------------------------ samples (C18, C11)

    fn on_sample(&mut self, ei: usize) {
        let s = self.v.sample(ei).clone();
        let tr = self.cur_tr.unwrap_or(0);
        let hostile = self.trs.get(tr).is_some_and(|t| t.hostile);
        // C18
        let mut distinct = [false; 3];
        for (h, st) in s.handles.iter().enumerate() {
            if let HStatus::Inconsistent(bits) = st {
                if *bits == 0x40 {
                    self.bad("C18", "C18/connection-and-session-disagree", format!("handle {h}: Connection::is_pending/is_complete/is_invalidated and the same queries through Connection::session() give different answers"));
                } else {
                    self.bad("C18", "C18/predicates-not-exclusive", format!("handle {h}: pending/complete/invalidated = {bits:03b}"));
                }
                continue;
            }
            if self.handle_ambiguous.get(h) == Some(&true) {
                continue;
            }
            if let (Some(None), Some(Some((r, _)))) = (self.handle_flight.get(h), self.handle_req.get(h)) {
                if let Some(fi) = self.flights.iter().position(|f| f.req == Some(*r)) {
                    self.handle_flight[h] = Some(fi);
                }
            }
            let Some(Some(fi)) = self.handle_flight.get(h) else {
                // accepted, still queued: pending until the session is replaced
                if let Some(Some((_, ep))) = self.handle_req.get(h) {
                    let want = if *ep != self.epoch { HStatus::Invalidated } else { HStatus::Pending };
                    if *st != want && !hostile {
                        self.bad("C18", format!("C18/status/{:?}-expected-{:?}/queued", st, want), format!("handle {h} (accepted, not yet transmitted): reported {:?}, model says {:?}", st, want));
                    }
                }
                continue;
            };
            let f = &self.flights[*fi];
            let want = if f.epoch != self.epoch {
                HStatus::Invalidated
            } else if f.phase == Phase::Done {
                HStatus::Complete
            } else {
                HStatus::Pending
            };
            match want {
                HStatus::Pending => distinct[0] = true,
                HStatus::Complete => distinct[1] = true,
                _ => distinct[2] = true,
            }
            if *st != want && !hostile {
                let detail = format!("handle {h} ({} id {}): reported {:?}, model says {:?}", kind_name(f.kind), f.pid, st, want);
                let early_complete = f.kind == FKind::Pub2 && matches!(f.phase, Phase::Released { .. }) && *st == HStatus::Complete;
                // a completed handle that reads pending again exactly while a *later* request
                // carries the same identifier (re-used after the 16-bit counter wrapped):
                // the handle is a (kind, identifier, generation) triple and cannot tell the two apart
                let fi0 = *fi;
                let aliased = want == HStatus::Complete
                    && *st == HStatus::Pending
                    && self.flights.iter().enumerate().any(|(gi, g)| gi > fi0 && g.epoch == f.epoch && g.pid == f.pid && g.phase != Phase::Done);
                if aliased {
                    self.bad("C18", format!("C18/completed-handle-aliases-reused-identifier/{}", kind_name(f.kind)), format!("{detail}: a later request re-uses identifier {} and is still in flight", f.pid));
                    continue;
                }
                self.bad("C18", format!("C18/status/{:?}-expected-{:?}/{}", st, want, kind_name(f.kind)), detail.clone());
                if early_complete {
                    // C03: the exchange is over at PUBCOMP, not at PUBREC (the PUBREL is still owed)
                    self.bad("C03", "C03/reported-complete-before-pubcomp", detail.clone());
                }
                if want == HStatus::Invalidated {
                    // C05: after a fresh broker session every earlier handle reports invalidated
                    self.bad("C05", format!("C05/handle-not-invalidated/{:?}", st), detail);
                }
            }
        }
        self.stats.max_distinct_status = self.stats.max_distinct_status.max(distinct.iter().filter(|b| **b).count() as u32);
        // C11
        if let (Some(tr), Some(conn)) = (self.cur_tr, s.connected) {
            if self.dead[tr].is_some() {
                if conn {
                    self.bad("C11", "C11/is-connected-after-death", format!("transport {tr}: is_connected() is true after the handle died"));
                }
                if s.can_publish.is_some_and(|c| c.iter().any(|b| *b)) {
                    self.bad("C11", "C11/can-publish-after-death", format!("transport {tr}: can_publish() is true after the handle died"));
                }
            }
        }
    }

    fn c11_op(&mut self, op: usize) {
        let rec = &self.v.trace.ops[op];
        let tr = rec.tr;
        if let Some((killer, touches)) = self.dead[tr] {
            self.stats.dead_tail_ops += 1;
            let ok = match (&rec.kind, &rec.res) {
                (OpKind::Disconnect, OpRes::Ok) => true,
                (OpKind::Disconnect, _) => false,
                (_, OpRes::Err(ErrKind::Disconnected)) => true,
                _ => false,
            };
            if !ok {
                self.bad("C11", format!("C11/result-after-death/{:?}", rec.kind), format!("op {op} ({:?}) on the handle that died in op {killer} returned {:?}", rec.kind, rec.res));
            }
            if rec.touches.1 != touches {
                self.bad("C11", format!("C11/transport-touched-after-death/{:?}", rec.kind), format!("op {op} ({:?}) performed transport I/O on the handle that died in op {killer}", rec.kind));
            }
            return;
        }
        // a broker DISCONNECT that this operation read and reported - under whatever error - is one
        // of the listed ways to die
        let by_broker = self.server_disconnect_read == Some(tr) && matches!(rec.res, OpRes::Err(_));
        if by_broker {
            self.server_disconnect_read = None;
        }
        let death = match (&rec.kind, &rec.res) {
            _ if by_broker => Some("broker-disconnect"),
            (_, OpRes::Err(ErrKind::Transport)) => Some("transport-error"),
            (_, OpRes::Err(ErrKind::Disconnected)) => Some("disconnected"),
            (_, OpRes::Err(ErrKind::InvalidPacket)) => Some("invalid-packet"),
            (OpKind::Disconnect, OpRes::Ok) => Some("local-disconnect"),
            _ => None,
        };
        if let Some(k) = death {
            self.dead[tr] = Some((op, rec.touches.1));
            if !self.stats.death_kinds.contains(&k) {
                self.stats.death_kinds.push(k);
            }
        }
    }
}

pub fn variant_name<T: std::fmt::Debug>(v: &T) -> String {
    let s = format!("{v:?}");
    s.split(|c: char| !c.is_alphanumeric() && c != '_').next().unwrap_or("").to_string()
}

fn kind_name(k: FKind) -> &'static str {
    match k {
        FKind::Pub1 => "PUBLISH-QoS1",
        FKind::Pub2 => "PUBLISH-QoS2",
        FKind::Sub => "SUBSCRIBE",
        FKind::Unsub => "UNSUBSCRIBE",
    }
}

pub fn short(p: &Packet) -> String {
    match p {
        Packet::Publish(pb) => format!(
            "PUBLISH{{dup:{},qos:{},retain:{},topic:{:?},pid:{:?},props:{:?},payload:{}B}}",
            pb.dup,
            pb.qos,
            pb.retain,
            if pb.topic.len() > 24 { format!("{}…({}B)", &pb.topic[..pb.topic.char_indices().take(20).last().map(|x| x.0).unwrap_or(0)], pb.topic.len()) } else { pb.topic.clone() },
            pb.pid,
            pb.props,
            pb.payload.len()
        ),
        other => {
            let s = format!("{other:?}");
            if s.len() > 200 { format!("{}…", &s[..200]) } else { s }
        }
    }
}

#[allow(dead_code)]
fn _unused(_: FaultKind) {}
