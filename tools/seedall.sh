#!/bin/bash
# Re-verify every seeded change against the current checks (uses /repo: do not run anything else meanwhile).
cd /verif
for d in /tmp/seed_out/C*/; do id=$(basename $d); for x in A B; do [ -f $d/$x.patch.diff ] && tools/seedcheck.sh $id $x 2>&1 | tail -1; done; done
for d in /tmp/seed_out2/C*/; do id=$(basename $d); for x in A B; do [ -f $d/$x.patch.diff ] && tools/seedcheck2.sh $id $x 2>&1 | tail -1 | sed 's/^/r2 /'; done; done
