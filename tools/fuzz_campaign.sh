#!/bin/sh
# Coverage-guided campaign for the thorough tier: C08 -> fz_inbound, C01 -> fz_scenario.
# Fixed work (-runs), seed from VERIF_SEED, in-tree work directory (nothing under /tmp).
prop=$1
root="$(cd "$(dirname "$0")/.." && pwd)"
seed=${VERIF_SEED:-20260925}; [ "$seed" = 0 ] && seed=1
case $prop in
  C08) target=fz_inbound; runs=${VERIF_FUZZ_RUNS:-3000000}; maxlen=300;;
  C01) target=fz_scenario; runs=${VERIF_FUZZ_RUNS:-1500000}; maxlen=600;;
  *) exit 0;;
esac
work="$root/fuzz/work/$target"; rm -rf "$work" "$root/fuzz/artifacts/$target"; mkdir -p "$work" "$root/fuzz/artifacts/$target"
cd "$root/harness" || exit 2
export VERIF_PROPERTY=$prop
# the interpreter forgets connections on purpose (EndHow::Forget): leak reports are about the harness
export ASAN_OPTIONS=detect_leaks=0
log="$root/fuzz/work/$target.log"
if ! cargo +nightly fuzz build --fuzz-dir "$root/fuzz" $target >"$log" 2>&1; then
    tail -5 "$log"; echo "INCONCLUSIVE: fuzz target does not build"; exit 2
fi
cargo +nightly fuzz run --fuzz-dir "$root/fuzz" $target "$work" "$root/corpus/$target" -- \
    -runs=$runs -seed=$seed -detect_leaks=0 -rss_limit_mb=4096 -timeout=120 -len_control=0 -max_len=$maxlen -print_final_stats=1 >>"$log" 2>&1
frc=$?
execs=$(grep -E "stat::number_of_executed_units" "$log" | awk '{print $2}' | tail -1)
cov=$(grep -oE "cov: [0-9]+" "$log" | tail -1 | awk '{print $2}')
corp=$(ls "$work" | wc -l)
# only crash-* artifacts come from the in-target oracle; leak-/oom-/timeout-/slow-unit- are resource
# reports about the harness process (EndHow::Forget leaks a connection on purpose) and never a violation
crash=$(ls "$root/fuzz/artifacts/$target" 2>/dev/null | grep '^crash-' | head -1)
other=$(ls "$root/fuzz/artifacts/$target" 2>/dev/null | grep -v '^crash-' | head -1)
python3 - "$root/evidence/$prop.json" "$target" "${execs:-0}" "${cov:-0}" "$corp" "$seed" "${crash:-}" <<'PY'
import json,sys
f,target,execs,cov,corp,seed,crash=sys.argv[1:8]
try:
    e=json.load(open(f))
    e['coverage']['libfuzzer']={"target":target,"executions":int(execs),"edge_coverage":int(cov),"corpus_files_at_end":int(corp),"seed":int(seed),"crash_artifact":crash or None}
    json.dump(e,open(f,'w'),indent=1)
except Exception as ex:
    print("could not extend evidence:",ex)
PY
echo "$prop thorough: libFuzzer $target executions=${execs:-?} edge_coverage=${cov:-?} corpus=$corp"
if [ -n "$crash" ]; then
    art="$root/fuzz/artifacts/$target/$crash"
    mkdir -p "$root/replays/$prop"; cp "$art" "$root/replays/$prop/libfuzzer-$crash"
    grep -E "^VIOLATION|^violation" "$log" | head -3
    rp="$root/replays/$prop/libfuzzer-$crash"
    if grep -q "^REPLAY-JSON: " "$log"; then
        grep "^REPLAY-JSON: " "$log" | tail -1 | sed 's/^REPLAY-JSON: //' > "$rp.json"; rp="$rp.json"
    fi
    echo "VIOLATION property=$prop replay=$rp"
    exit 1
fi
if [ -n "$other" ]; then
    echo "INCONCLUSIVE: libFuzzer resource report $other (not a property violation)"; exit 2
fi
if [ "$frc" != 0 ]; then
    tail -5 "$log"; echo "INCONCLUSIVE: libFuzzer exited with status $frc without an artifact"; exit 2
fi
exit 0
