#!/bin/bash
# usage: seedtry.sh <patch.diff> <lane> <Cxx> [Cyy...]   - quick iteration: apply one patch in the lane's scratch
# worktree, rebuild the lane's harness copy from /verif/harness (working tree) and run the given quick checks.
patch=$1; lane=$2; shift 2
wt=/tmp/seed/t_lane$lane; h2=/tmp/h2t_$lane
[ -d $wt ] || git -C /repo worktree add -q --detach $wt HEAD
git -C $wt checkout -q --detach "$(git -C /repo rev-parse HEAD)"; git -C $wt reset -q --hard
git -C $wt apply $patch 2>/dev/null || git -C $wt apply -C1 $patch 2>/dev/null || git -C $wt apply --3way $patch || { echo "patch does not apply"; exit 2; }
mkdir -p $h2 ${h2}out
rsync -a --exclude target /verif/harness/ $h2/
sed -i "s|path = \"/repo\"|path = \"$wt\"|" $h2/Cargo.toml
(cd $h2 && cargo build --release --offline -q 2>$h2/build.log) || { tail -20 $h2/build.log; exit 2; }
for p in "$@"; do
  o=$(cd $h2 && VERIF_OUT=${h2}out timeout 900 ./target/release/vcheck $p quick 2>&1); rc=$?
  echo "$p rc=$rc $(echo "$o" | grep -E "^violation" | head -4 | sed 's/^violation: //' | tr '\n' ';')"
done
git -C $wt reset -q --hard
