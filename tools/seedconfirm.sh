#!/bin/bash
# usage: seedconfirm.sh <seeded-name>...   Re-confirms a stored (e.g. re-based) seeded change on the
# current /repo HEAD in a scratch worktree: the suite passes with it, its demo fails with it and passes
# without it. Updates the confirmation fields of seeded/<name>/meta.json. Never touches /repo.
wt=/tmp/seed/lane0
head=$(git -C /repo rev-parse --short HEAD)
[ -d $wt ] || git -C /repo worktree add -q --detach $wt HEAD
git -C $wt checkout -q --detach $head
for name in "$@"; do
  d=/verif/seeded/$name
  git -C $wt reset -q --hard; rm -f $wt/tests/demo_seed.rs
  git -C $wt apply $d/patch.diff || { echo "$name: patch does not apply"; continue; }
  suite=$(cd $wt && cargo test --workspace --offline 2>&1 | grep -E "^test result" | tr '\n' ' ')
  cp $d/demo.rs $wt/tests/demo_seed.rs
  dw=$(cd $wt && cargo test --offline --test demo_seed 2>&1 | grep -E "^test result" | tr '\n' ' ')
  rm -f $wt/tests/demo_seed.rs; git -C $wt reset -q --hard
  cp $d/demo.rs $wt/tests/demo_seed.rs
  dwo=$(cd $wt && cargo test --offline --test demo_seed 2>&1 | grep -E "^test result" | tr '\n' ' ')
  rm -f $wt/tests/demo_seed.rs
  python3 - "$d/meta.json" "$suite" "$dw" "$dwo" "$head" <<'PY'
import json,sys
f,suite,dw,dwo,head=sys.argv[1:6]
m=json.load(open(f))
m["existing_suite_with_change"]=suite.strip() or "BUILD FAILED"
m["existing_suite_has_failures"]=("FAILED" in suite) or not suite.strip()
m["demo_with_change"]=dw.strip(); m["demo_without_change"]=dwo.strip()
m["demo_fails_with_change"]="FAILED" in dw
m["demo_passes_without_change"]=("ok." in dwo and "FAILED" not in dwo)
m["confirmed_at"]=head
json.dump(m,open(f,"w"),indent=1)
print(f.split('/')[-2],"| suite:",("FAIL" if m["existing_suite_has_failures"] else "pass"),"| demo with:",("fails" if m["demo_fails_with_change"] else "PASSES?"),"| demo without:",("passes" if m["demo_passes_without_change"] else "FAILS?"))
PY
done
git -C $wt reset -q --hard
