#!/bin/bash
# usage: seedcheck.sh <Cxx> <A|B> [extra props to run...]
# 1. confirms in a scratch worktree that the change compiles, passes the existing suite, and that
#    the demo fails with it / passes without it;
# 2. applies the change to /repo, runs the quick checks, reverts /repo;
# 3. stores patch, demo, meta.json under /verif/seeded/<id>_<X>/.
set -u
id=$1; x=$2; shift 2
src=/tmp/seed_out2/$id
wt=/tmp/seed/verify
out=/verif/seeded/${id}_${x}_r2
mkdir -p $out
if [ ! -d $wt ]; then
  git -C /repo worktree add -q --detach $wt HEAD && cp -r /repo/target $wt/target
fi
git -C $wt checkout -q -- . ; rm -f $wt/tests/demo_seed.rs
git -C $wt apply $src/$x.patch.diff || { echo "patch does not apply"; exit 2; }
suite=$(cd $wt && cargo test --workspace --offline 2>&1 | grep -E "^test result" | tr '\n' ' ')
suite_ok=$(echo "$suite" | grep -c "FAILED")
cp $src/$x.demo.rs $wt/tests/demo_seed.rs
demo_with=$(cd $wt && cargo test --offline --test demo_seed 2>&1 | grep -E "^test result" | tr '\n' ' ')
git -C $wt checkout -q -- src
demo_without=$(cd $wt && cargo test --offline --test demo_seed 2>&1 | grep -E "^test result" | tr '\n' ' ')
rm -f $wt/tests/demo_seed.rs
git -C $wt checkout -q -- .
# now the checks
git -C /repo checkout -q -- .
git -C /repo apply $src/$x.patch.diff
results=""
for p in $id "$@"; do
  o=$(timeout 600 /verif/check $p quick 2>&1); rc=$?
  sig=$(echo "$o" | grep -E "^violation" | head -3 | sed 's/^violation: //' | tr '\n' ';')
  results="$results $p:rc=$rc[$sig]"
done
git -C /repo checkout -q -- .
cp $src/$x.patch.diff $out/patch.diff; cp $src/$x.demo.rs $out/demo.rs; cp $src/$x.notes.md $out/notes.md 2>/dev/null
python3 - "$id" "$x" "$suite" "$suite_ok" "$demo_with" "$demo_without" "$results" <<'PY'
import json,sys
id,x,suite,suite_failed,dw,dwo,results=sys.argv[1:8]
meta={"breaks_property":id,"variant":x,
 "existing_suite_with_change":suite.strip(),"existing_suite_has_failures":suite_failed!="0",
 "demo_with_change":dw.strip(),"demo_without_change":dwo.strip(),
 "demo_fails_with_change":"FAILED" in dw,"demo_passes_without_change":("ok." in dwo and "FAILED" not in dwo),
 "checks_run":results.strip(),
 "what_ran":"tools/seedcheck.sh: scratch worktree /tmp/seed/verify (cargo test --workspace --offline; demo as tests/demo_seed.rs with and without the patch), then git -C /repo apply + ./check <prop> quick + git -C /repo checkout -- ."}
try:
    meta["needs_to_manifest"]=open(f"/tmp/seed_out2/{id}/{x}.notes.md").read()
except Exception: pass
json.dump(meta,open(f"/verif/seeded/{id}_{x}_r2/meta.json","w"),indent=1)
print(id,x,"| suite:",("FAIL" if suite_failed!="0" else "pass"),"| demo with:",("fails" if "FAILED" in dw else "PASSES?"),"| demo without:",("passes" if "ok." in dwo and "FAILED" not in dwo else "FAILS?"),"|",results.strip())
PY
