#!/bin/sh
# Runs every thorough check with the given seeds (background soak; results go to stdout).
# results of a soak go next to the (snapshot) tree it runs from, not into /verif/evidence
export VERIF_OUT="${VERIF_OUT:-$(pwd)/soak_out}"
for seed in "$@"; do
  for p in C01 C02 C03 C04 C05 C06 C07 C08 C09 C10 C11 C12 C13 C14 C15 C16 C17 C18 C19 C20; do
    VERIF_SEED=$seed ./check $p thorough 2>&1 | grep -E "VIOLATION|INCONCLUSIVE|thorough:|^violation" | head -5
  done
done
