#!/usr/bin/env python3
"""Re-runs the quick checks against every stored seeded change (seeded/<name>/patch.diff) on the
current /repo HEAD without touching /repo: the patch is applied in a scratch worktree and a second
copy of the harness (path dependency on that worktree) is rebuilt against it.

usage: seedregress.py <lane> <nlanes> [name-regex]
  lane k of n handles every n-th seeded change; each lane owns /tmp/seed/lane<k> (worktree) and
  /tmp/h2_<k> (harness copy). Results are written to seeded/<name>/meta.json (fields checks_run,
  evaluated_at, patch_applies) - the confirmation fields written when the change was accepted
  (suite green, demo fails with / passes without) are left alone.
"""
import json, os, re, subprocess, sys, glob

lane, nl = int(sys.argv[1]), int(sys.argv[2])
rx = re.compile(sys.argv[3]) if len(sys.argv) > 3 else None
wt = f"/tmp/seed/lane{lane}"
h2 = f"/tmp/h2_{lane}"
out = f"/tmp/h2out_{lane}"
head = subprocess.check_output(["git", "-C", "/repo", "rev-parse", "--short", "HEAD"]).decode().strip()

def sh(cmd, **kw):
    return subprocess.run(cmd, shell=True, stdout=subprocess.PIPE, stderr=subprocess.STDOUT, text=True, **kw)

if not os.path.isdir(wt):
    sh(f"git -C /repo worktree add -q --detach {wt} HEAD")
sh(f"git -C {wt} checkout -q --detach {head}")
os.makedirs(h2, exist_ok=True)
os.makedirs(out, exist_ok=True)
sh(f"rsync -a --exclude target /verif/harness/ {h2}/")
sh(f"sed -i 's|path = \"/repo\"|path = \"{wt}\"|' {h2}/Cargo.toml")

names = sorted(os.path.basename(os.path.dirname(p)) for p in glob.glob("/verif/seeded/*/meta.json"))
for i, name in enumerate(names):
    if i % nl != lane or (rx and not rx.search(name)):
        continue
    d = f"/verif/seeded/{name}"
    meta = json.load(open(f"{d}/meta.json"))
    sh(f"git -C {wt} reset -q --hard")
    ok = False
    for opt in ("", "-C1", "--3way"):
        r = sh(f"git -C {wt} apply {opt} {d}/patch.diff")
        if r.returncode == 0:
            ok = True
            break
        sh(f"git -C {wt} reset -q --hard")
    meta["evaluated_at"] = head
    meta["patch_applies"] = ok
    if not ok:
        meta.setdefault("checks_run_before_" + head, meta.get("checks_run", ""))
        meta["checks_run"] = ""
        json.dump(meta, open(f"{d}/meta.json", "w"), indent=1)
        print(name, "| patch does not apply to", head, flush=True)
        continue
    props = [meta["breaks_property"]]
    for p in re.findall(r"(C\d\d):rc=", meta.get("checks_run", "")):
        if p not in props:
            props.append(p)
    b = sh(f"cd {h2} && cargo build --release --offline -q")
    if b.returncode != 0:
        meta["checks_run"] = "harness-build-failed"
        json.dump(meta, open(f"{d}/meta.json", "w"), indent=1)
        print(name, "| build failed", b.stdout[-300:], flush=True)
        continue
    res = []
    for p in props:
        r = sh(f"cd {h2} && VERIF_OUT={out} timeout 900 ./target/release/vcheck {p} quick")
        sigs = ";".join(l[len("violation: "):] for l in r.stdout.splitlines() if l.startswith("violation: "))
        sigs = ";".join(sigs.split(";")[:3])
        res.append(f"{p}:rc={r.returncode}[{sigs + ';' if sigs else ''}]")
        if p == props[0] and r.returncode == 1:
            break  # caught by its own property's check: no need for the others
    meta["checks_run"] = " ".join(res)
    json.dump(meta, open(f"{d}/meta.json", "w"), indent=1)
    print(name, "|", meta["checks_run"], flush=True)
sh(f"git -C {wt} reset -q --hard")
