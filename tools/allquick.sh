#!/bin/sh
# Runs every quick check with the given seeds from the already built harness (silence sweep on the
# unchanged tree after a harness change). Results go to $VERIF_OUT (default /tmp/qout), not /verif/evidence.
export VERIF_OUT="${VERIF_OUT:-/tmp/qout}"
mkdir -p "$VERIF_OUT"
cd /verif/harness || exit 2
for seed in "$@"; do
  for p in C01 C02 C03 C04 C05 C06 C07 C08 C09 C10 C11 C12 C13 C14 C15 C16 C17 C18 C19 C20; do
    s=$(date +%s)
    o=$(VERIF_SEED=$seed ./target/release/vcheck $p quick 2>&1); rc=$?
    echo "seed=$seed $p rc=$rc $(( $(date +%s) - s ))s $(echo "$o" | grep -E "VIOLATION|INCONCLUSIVE|^violation" | head -3 | tr '\n' ';')"
  done
done
