#!/bin/bash
# usage: seedcheck3.sh <srcdir> <suffix> <Cxx> <A|B|C> [extra props...]
# Like seedcheck.sh but never touches /repo: a second copy of the harness (/tmp/h2, synced from
# /verif/harness) is built against the scratch worktree /tmp/seed/verify in which the patch is applied.
set -u
srcroot=$1; suffix=$2; id=$3; x=$4; shift 4
src=$srcroot/$id
wt=${SEED_WT:-/tmp/seed/verify}; h2=${SEED_H2:-/tmp/h2}
out=/verif/seeded/${id}_${x}_$suffix
mkdir -p $out ${h2}out
git -C $wt reset -q --hard; rm -f $wt/tests/demo_seed.rs
git -C $wt apply $src/$x.patch.diff 2>/dev/null || git -C $wt apply -C1 $src/$x.patch.diff 2>/dev/null || git -C $wt apply --3way $src/$x.patch.diff 2>/dev/null || { echo "$id $x patch does not apply"; exit 2; }
suite=$(cd $wt && cargo test --workspace --offline 2>&1 | grep -E "^test result" | tr '\n' ' ')
suite_ok=$(echo "$suite" | grep -c "FAILED"); [ -z "$suite" ] && suite_ok=1 && suite="BUILD FAILED"
cp $src/$x.demo.rs $wt/tests/demo_seed.rs
demo_with=$(cd $wt && cargo test --offline --test demo_seed 2>&1 | grep -E "^test result" | tr '\n' ' ')
rm -f $wt/tests/demo_seed.rs
# checks against the patched worktree
rsync -a --exclude target --exclude Cargo.toml /verif/harness/ $h2/
results=""
if (cd $h2 && cargo build --release --offline -q 2>$h2/build.log); then
  for p in $id "$@"; do
    o=$(cd $h2 && VERIF_OUT=${h2}out timeout 600 ./target/release/vcheck $p quick 2>&1); rc=$?
    sig=$(echo "$o" | grep -E "^violation" | head -3 | sed 's/^violation: //' | tr '\n' ';')
    results="$results $p:rc=$rc[$sig]"
  done
else
  results="harness-build-failed"
fi
git -C $wt reset -q --hard
cp $src/$x.demo.rs $wt/tests/demo_seed.rs
demo_without=$(cd $wt && cargo test --offline --test demo_seed 2>&1 | grep -E "^test result" | tr '\n' ' ')
rm -f $wt/tests/demo_seed.rs
git -C $wt reset -q --hard
cp $src/$x.patch.diff $out/patch.diff; cp $src/$x.demo.rs $out/demo.rs; cp $src/$x.notes.md $out/notes.md 2>/dev/null
python3 - "$id" "$x" "$suite" "$suite_ok" "$demo_with" "$demo_without" "$results" "$src" "$out" <<'PY'
import json,sys
id,x,suite,suite_failed,dw,dwo,results,src,out=sys.argv[1:10]
meta={"breaks_property":id,"variant":x,
 "existing_suite_with_change":suite.strip(),"existing_suite_has_failures":suite_failed!="0",
 "demo_with_change":dw.strip(),"demo_without_change":dwo.strip(),
 "demo_fails_with_change":"FAILED" in dw,"demo_passes_without_change":("ok." in dwo and "FAILED" not in dwo),
 "checks_run":results.strip(),
 "what_ran":"tools/seedcheck3.sh: scratch worktree /tmp/seed/verify (cargo test --workspace --offline; demo as tests/demo_seed.rs with and without the patch); quick checks run from a second copy of /verif/harness built against that patched worktree (path dependency), /repo untouched"}
try:
    meta["needs_to_manifest"]=open(f"{src}/{x}.notes.md").read()
except Exception: pass
json.dump(meta,open(f"{out}/meta.json","w"),indent=1)
print(id,x,"| suite:",("FAIL" if suite_failed!="0" else "pass"),"| demo with:",("fails" if "FAILED" in dw else "PASSES?"),"| demo without:",("passes" if "ok." in dwo and "FAILED" not in dwo else "FAILS?"),"|",results.strip())
PY
