#!/usr/bin/env python3
"""Regenerates the seeded-changes table in DESIGN.md from /verif/seeded/*/meta.json."""
import json,glob,re,os
rows=[]
for d in sorted(glob.glob('/verif/seeded/*/meta.json')):
    m=json.load(open(d)); name=os.path.basename(os.path.dirname(d))
    ok = (not m['existing_suite_has_failures']) and m['demo_fails_with_change'] and m['demo_passes_without_change']
    notes=(m.get('needs_to_manifest') or '').strip().split('\n')
    first=[l for l in notes if l.strip() and not l.startswith('#')]
    what=(first[0] if first else '')[:150].replace('|','/')
    caught=[]
    for pid, rc, sigs in re.findall(r'(C\d\d):rc=(\d+)\[(.*?)\]', m['checks_run']):
        sig = sigs.split(';')[0].split(' ')[-1] if sigs else ''
        caught.append(f"{pid}: {'caught (' + sig + ')' if rc == '1' else ('inconclusive' if rc == '2' else 'NOT caught')}")
    extra=[]
    if m.get('patch_applies') is False:
        extra.append('patch no longer applies to the repaired tree')
    for k in ('obsolete','neutralised_by_fix','note_after_fix_a98c62f'):
        if m.get(k):
            extra.append(m[k].replace('|','/').replace('\n',' '))
    if m.get('checks_run_before_8c38603'):
        extra.append('before fix 8c38603: '+m['checks_run_before_8c38603'])
    cell='; '.join(caught) if caught else '-'
    if extra:
        cell += ' - ' + ' '.join(extra)
    rows.append(f"| {name} | {'yes' if ok else 'NO'} | {what} | {cell} |")
table="| seeded change | confirmed (suite green, demo fails with / passes without) | what it is (first line of the author's note) | quick checks run against it |\n|---|---|---|---|\n"+"\n".join(rows)
s=open('/verif/DESIGN.md').read()
a=s.index('<!-- SEEDED-TABLE-BEGIN -->')+len('<!-- SEEDED-TABLE-BEGIN -->'); b=s.index('<!-- SEEDED-TABLE-END -->')
s=s[:a]+"\n"+table+"\n"+s[b:]
open('/verif/DESIGN.md','w').write(s)
print(len(rows),"rows")
