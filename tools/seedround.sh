#!/bin/bash
# usage: seedround.sh <srcroot> <suffix> <lane> <nlanes> [id-regex]
# Evaluates a round of freshly written seeded changes (<srcroot>/<Cxx>/{A,B}.patch.diff, .demo.rs,
# .notes.md) with seedcheck3.sh, in lane-private scratch worktrees / harness copies (never /repo).
srcroot=$1; suffix=$2; lane=$3; nl=$4; rx=${5:-.}
export SEED_WT=/tmp/seed/r_lane$lane SEED_H2=/tmp/h2r_$lane
[ -d $SEED_WT ] || git -C /repo worktree add -q --detach $SEED_WT HEAD
git -C $SEED_WT checkout -q --detach "$(git -C /repo rev-parse HEAD)"
mkdir -p $SEED_H2
rsync -a --exclude target /verif/harness/ $SEED_H2/
sed -i "s|path = \"/repo\"|path = \"$SEED_WT\"|" $SEED_H2/Cargo.toml
i=0
for d in $srcroot/C*/; do
  id=$(basename $d)
  for x in A B; do
    [ -f $d/$x.patch.diff ] && [ -f $d/$x.demo.rs ] || continue
    i=$((i+1))
    [ "$nl" = 1 ] || [ $((i % nl)) = $lane ] || continue
    echo "$id$x" | grep -Eq "$rx" || continue
    /verif/tools/seedcheck3.sh $srcroot $suffix $id $x 2>&1 | tail -1
  done
done
