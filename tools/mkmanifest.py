#!/usr/bin/env python3
"""Regenerates /verif/MANIFEST.json from the table below (single source of truth)."""
import json, subprocess

CHECKS = {
 "C01": dict(cat="exploration", tech="stateful property-based testing (proptest histories) + strict reference decoder + wire/model invariant",
   text="Generated API histories with partial writes, cancellations, faults, inbound traffic and reconnects; every transport's accepted byte stream must parse, packet by packet, with an independent strict MQTT 5 decoder and each packet must be one the reference model expects. Search, not proof: bounded by case count and history length.",
   note="Assumes a transport obeying embedded-io-async (no Ok(0) writes, cancel-safe futures) and a conformant broker; trusted base: harness/src/refcodec.rs, sim/, model.rs. Known findings (replayed SUBSCRIBE/UNSUBSCRIBE flag nibble 1010) are tolerated by exact signature; disconnect() dropped after a partial write is excluded by construction here and exercised in C13.", ref="4/C01"),
 "C02": dict(cat="exploration", tech="stateful property-based testing with crash points + history invariant over the wire",
   text="QoS 1 heavy histories with connection death at generated I/O indices and 2-6 reconnects; per-message replay invariant (once per resumed connection, same id, DUP, byte-identical, order, never after PUBACK).",
   note="Same transport/broker assumptions as C01; 'accepted' is observed through handles and the wire.", ref="4/C02"),
 "C03": dict(cat="exploration", tech="stateful property-based testing + per-exchange state machine oracle",
   text="Concurrent QoS 2 exchanges with generated PUBREC/PUBCOMP orders, failing PUBRECs, crashes between the four steps and resumed reconnects, judged by a four-state machine per (session epoch, id) including PUBREL replay order; QoS 1 publishes, SUBSCRIBE and UNSUBSCRIBE requests are outstanding among the exchanges (shared identifier space and retained table).",
   note="Same assumptions as C01.", ref="4/C03"),
 "C04": dict(cat="exploration", tech="model-based property testing against a reference receiver",
   text="Generated broker PUBLISH traffic (all QoS, property sets, duplicates, PUBREL for pending/unknown ids) interleaved with outbound traffic on small arenas and reconnects; deliveries and acknowledgements compared with a reference receiver model. A second, purpose-built generator fills the inbound QoS 2 window (5-8 of the 8 advertised), resumes once or twice with a broker that may not have seen the previous PUBRECs (DUP PUBLISH of identifiers the client holds), and mixes releases with new messages re-using identifiers.",
   note="Broker respects the client's advertised Receive Maximum and Maximum Packet Size; acknowledgements left unsent/unflushed on a dead transport may or may not be repeated on the next one, except a successful PUBCOMP that never left the client: it is mandatory (and first) once the broker retransmits its PUBREL.", ref="4/C04"),
 "C05": dict(cat="exploration", tech="stateful property-based testing over connection sequences + decoded CONNECT / replay oracle",
   text="2-8 connections with arbitrary legal session-present answers and failed handshakes in between; CONNECT flags/client id, ConnectEvent, replay-before-new-packet and discard-on-fresh-session rules checked on the wire and through handles.",
   note="Same assumptions as C01. Handshake outcomes include well-framed success CONNACKs that the client rejects while reading the properties (Receive Maximum 0, Maximum QoS 3): connect() fails and the session must be untouched.", ref="4/C05"),
 "C06": dict(cat="exploration", tech="stateful property-based testing + counting invariant",
   text="Small Receive Maximum values with QoS 1/2 mixes, ack timing and reconnects; at every completed QoS>0 PUBLISH the number of unresolved publishes sent on that connection must not exceed the CONNACK's Receive Maximum; refused publishes leave nothing on the wire.",
   note="Receive Maximum belongs to each CONNACK and differs between the connections of a case in 40 % of the cases; retransmissions may then wait for room in a smaller window (accepted, never required). Counting uses the per-connection reading of MQTT 5 section 4.9, which is the weaker (sound) one. Rule accepted-beyond-window: a QoS 1/2 publish that returns a handle while the model counts >= Receive Maximum unresolved publishes.", ref="4/C06"),
 "C07": dict(cat="exploration", tech="property-based testing with a wrap-reaching generator (identifier burn) + in-flight-set invariant",
   text="Cases fill the send window with long-lived QoS 1/2 publishes and SUBSCRIBE/UNSUBSCRIBE, burn 65535*w+offset identifier allocations through locally refused publishes so the 16-bit counter lands on/around identifiers still in use, then issue new operations; every identifier-bearing packet must carry a non-zero id outside the model's in-flight set.",
   note="The burn relies on refused requests consuming identifiers (stated in the property); if a refactor changes that the non-trivial count drops instead of an alarm being raised. A second generator covers identifiers across 2-6 connections with failed handshakes in between; a third builds a dense block of 9-15 identifiers in use (eight QoS 2 exchanges awaiting PUBCOMP plus unacknowledged SUBSCRIBE/UNSUBSCRIBE) and lands the wrapped counter on it.", ref="4/C07"),
 "C08": dict(cat="exploration", tech="exhaustive short-input enumeration + grammar-based generation with single-point mutations + coverage-guided fuzzing (libFuzzer, thorough tier), three-valued reference classifier as oracle",
   text="Every byte string of length 1-2 (thorough: 3), 256 first bytes x 20 remaining-length forms x 8 bodies, every server packet type in every legal encoding plus one mutation, and saved fuzzer inputs are fed before and after CONNACK into a session with one in-flight operation of every kind under generated read chunking. VALID => exact API effect; MALFORMED => InvalidPacket, dead handle, nothing acted upon; any panic/overflow is a violation.",
   note="Lazily decoded property contents outside CONNACK and broker protocol errors (ack of the wrong kind, CONNACK after handshake, AUTH) are UNSPECIFIED and not judged.", ref="4/C08"),
 "C09": dict(cat="exploration", tech="round-trip against an independent MQTT 5 decoder over generated configurations and requests (property-based)",
   text="Generated configurations and requests (all property kinds/combinations, subscription options, remaining lengths on the 128/16384/2097152 boundaries, fields > 65535 bytes, too-small arenas); the strict reference decode of the captured bytes must equal the request field by field; unencodable requests fail with zero I/O; encodable ones with ample resources succeed.",
   note="Property lists are compared as multisets (the API does not fix the position of correlate()). A second generator (histories with partial acknowledgement and resumed reconnects) checks that every retransmission still decodes to its request.", ref="4/C09"),
 "C10": dict(cat="exploration", tech="property-based testing on a virtual clock owned by the harness (embassy-time driver) + timestamp oracle",
   text="Keep-alive values incl. 0/1/2..65535 and Server Keep Alive overrides; the application sits in poll() while virtual time jumps to the client's own deadlines (plus generated executor latency) and to scheduled inbound arrivals; PINGRESP delays around the 5 s bound incl. never. Gaps between completed client packets <= effective keep-alive, no ping at keep-alive 0, dead peer detected at the bound (not earlier, not later than injected latency), timely PINGRESP never disconnects.",
   note="Writes complete instantly; a broker PUBLISH may arrive in two parts (tail later or never: a peer stalling mid-packet); a PINGRESP readable exactly at the bound (or within injected latency after it) is unspecified. 40 % of the cases start with an earlier connection of the same session (own Server Keep Alive, possibly abandoned with a PINGREQ queued); the last connection is judged, its effective keep-alive being the Server Keep Alive of its CONNACK, else the value in its CONNECT. Known finding: keep-alive < 5 s with a PINGRESP later than the keep-alive.", ref="4/C10"),
 "C11": dict(cat="fault_enumeration", tech="fault injection at generated I/O-call indices + sticky-death invariant",
   text="Faults (read error, EOF, write error, flush error, broker DISCONNECT, local disconnect) at generated I/O calls followed by further API calls on the same handle; after death every op fails fast with Disconnected and the transport poll counter must not move.",
   note="Death triggers are the results listed in the property, plus: an operation that read a broker DISCONNECT and returned any error. NotReady/InvalidRequest/Rejected/resource errors alone are not triggers.", ref="4/C11"),
 "C12": dict(cat="exploration", tech="stateful property-based testing of arbitrary failure prefixes + differential twin (brand-new session)",
   text="Arbitrary generated history (faults, cancellations, 25% failed handshakes of all kinds, leaked handles, small buffers, arena-filling payloads) followed by connect() over a healthy transport to a conformant broker: must succeed whenever a brand-new session of the same configuration can, start with a complete CONNECT, parse cleanly, and pass a usability probe with results identical to the twin.",
   note="Known finding: CONNECT does not fit behind retained packets in a nearly full arena (BufferTooSmall forever). Receive buffers below 12 bytes cannot complete a subscribe at all and are excluded.", ref="4/C12"),
 "C13": dict(cat="exploration", tech="metamorphic / differential testing over every (operation, await point) pair (counted, then enumerated or sampled) + enumerated window-edge cancellations judged by the history monitor",
   text="Program with a reactive broker on a pend-first 1-byte-write transport; await points counted in an uncancelled run; each operation dropped at each await point (all when <= budget) and the connection driven to idle; request packets, PUBRELs, answers to broker publishes, delivered messages and final quiescence must equal the uncancelled twin, or the twin without the operation when it left no trace. Second, enumerated family (560 cases): the publish that fills the send window (Receive Maximum 1-4 or absent) is dropped at await point 0-6 under four write patterns; the history monitor must report nothing that it does not report for the twin without cancellation and with whole writes.",
   note="QoS 0 publish (also one that auto-downgrade produced) is documented as not cancel-safe and never cancelled. Pairs of cancellations are compared against the four with/without twins. Programs that disconnect without draining are compared by a prefix rule on the request stream. Known finding: disconnect() dropped after some of its bytes were accepted.", ref="4/C13"),
 "C14": dict(cat="exploration", tech="boundary-swept property-based testing with a reference length oracle (both directions)",
   text="Broker maxima 2..299 (and absent) with request lengths limit-3..limit+3 for every request kind, mandatory acks that may not fit, replay under a smaller later maximum, inbound packets of rx-1/rx/rx+1/huge declared bytes; refused iff the reference-encoded length exceeds the maximum, refusals leave no trace, nothing oversize is ever transmitted, oversize inbound ends the connection cleanly.",
   note="Maximum of exactly 4 leaves the ack outcome unspecified; behaviour of requests while a retained packet exceeds a later smaller maximum is unspecified beyond 'not transmitted'.", ref="4/C14"),
 "C15": dict(cat="exploration", tech="differential testing across fragmentations (exhaustive for a 13-byte stream, generated otherwise)",
   text="Same program and inbound stream run with whole I/O and with generated read chunkings / partial-write patterns / pend-first scheduling; all 4096 segmentations of CONNACK + QoS 2 PUBLISH incl. every split inside the fixed headers; 28 programs with a packet above 64 KiB cut on and around byte 65535. Deliveries, operation results, sampled predicates, connect results and outbound bytes must be identical.",
   note="Virtual time frozen; no cancellations or faults (C13 / C11 cover those).", ref="4/C15"),
 "C16": dict(cat="exploration", tech="stateful property-based testing + bounded-progress oracle with count-based watchdogs",
   text="Arbitrary generated prefix, then the benign continuation (resume, broker acknowledges everything, application polls until idle): idle within 4*(pending+8)+10 polls and arena+const bytes, quiescent, no pending handle, nothing owed, poll() never returns Ok(None) without a completed I/O call, no packet sent twice on one connection, watchdogs (transport polls, clock reads) never fire.",
   note="Unbounded liveness cannot be decided by testing; the bounded form is what is claimed. Same known finding as C12.", ref="4/C16"),
 "C17": dict(cat="exploration", tech="long-history property-based testing + byte-identity invariant + differential capacity probe against a fresh twin",
   text="Long histories on arenas of 36..4095 bytes with all ack orders, arena-filling payloads, QoS 0 and CONNECT traffic, reconnects; every retransmission must equal the first transmission except the DUP bit, and after draining a probe sweep (size ladder for QoS 0/1/2, slot counts) must give exactly the results of a brand-new session of the same build.",
   note="The twin is the same build, so local constants are never baked into the oracle. In half of the cases whose last connection survives the probe sweep runs on that same connection (a reconnect re-packs the arena).", ref="4/C17"),
 "C18": dict(cat="exploration", tech="model-based property testing of handle predicates sampled after every step",
   text="All op kinds, ack orders, reason codes and reconnect patterns; is_pending/is_complete/is_invalidated sampled after every step - through the connection and through its session, which must agree - and compared with the model; failing acks must surface as Rejected(code) from the consuming op.",
   note="Handle-to-packet association is derived from the wire per class of identical requests (acceptance order, accepted requests first); the status of a handle whose request has a cancelled identical twin is not judged. Known finding D17: a completed handle reads pending again while a later request re-uses its identifier after a counter wrap (exact signatures, shrunk input replayed from corpus/C18).", ref="4/C18"),
 "C19": dict(cat="exploration", tech="exhaustive table enumeration against an MQTT 5 legality oracle (three-valued)",
   text="Exhaustive: 4 request contexts x 27 property kinds x boundary values x 4 session states, will x 27 kinds, empty topic lists, dead handle, Maximum QoS x requested QoS x downgrade flag (2562 cells). MUST_REJECT cells: the documented error (InvalidRequest, in every session state incl. the exhausted ones), no I/O, observable state unchanged; MUST_ACCEPT cells: Ok and the property decodes from the wire.",
   note="Legality table written from the MQTT 5 specification; three cells classes are UNSPECIFIED and not judged (Topic Alias > 0, Server Reference on client DISCONNECT, empty/wildcard Response Topic).", ref="4/C19"),
 "C20": dict(cat="exploration", tech="property-based round-trip through a second session + reference decoder",
   text="Generated request publishes (response topic / correlation data of boundary lengths at generated property positions, or absent); reply(), reply()+user properties and reply_owned::<T,C> over 10 capacity pairs are published through a second session and decoded from its wire; a third reply carries further publish properties of its own (Response Topic for a follow-up, Content Type, Payload Format Indicator, Message Expiry).",
   note="At most one Response Topic / Correlation Data per inbound PUBLISH.", ref="4/C20"),
}

NOT_YET = {}

def main():
    checks = []
    for pid, c in sorted(CHECKS.items()):
        checks.append({
            "property_id": pid,
            "quick_cmd": f"./check {pid} quick",
            "thorough_cmd": f"./check {pid} thorough",
            "evidence_file": f"/verif/evidence/{pid}.json",
            "replay_cmd_template": f"./check {pid} --replay {{path}}",
            "engine": "vharness",
            "level_claimed": {"category": c["cat"], "text": c["text"], "design_ref": c["ref"]},
            "level_note": c["note"],
            "technique": c["tech"],
        })
    all_ids = [f"C{i:02d}" for i in range(1, 21)]
    na = [{"property_id": p, "reason": NOT_YET.get(p, "check not built yet in this commit (work in progress, see DESIGN.md section 4)")} for p in all_ids if p not in CHECKS]
    m = {
        "version": 1,
        "setup_cmd": "cd /verif/harness && CARGO_NET_OFFLINE=true cargo build --release --offline",
        "hooks": {
            "guard": "minimq_verif",
            "enable": "none needed: the harness drives minimq only through its public API (path dependency on /repo, default-features = false)",
            "baseline_off_cmd": "cd /repo && cargo test --workspace --no-fail-fast --offline",
            "source_commits": [],
            "add_only": True,
        },
        "engines": [{
            "name": "vharness",
            "path": "/verif/harness",
            "serves_properties": sorted(CHECKS.keys()),
            "kind_free_text": "Rust crate: simulated embedded-io-async transport, virtual embassy-time driver, hand-rolled executor, independent MQTT 5 reference codec, reference broker, scenario DSL + interpreter, history monitors; proptest drives generation and shrinking",
        }],
        "checks": checks,
        "not_applicable": na,
        "notes": "Every check: exit 0 = held, exit 1 + VIOLATION line = violation, exit 2 = inconclusive (build failure/watchdog). Known findings live in /verif/KNOWN_FINDINGS.json.",
    }
    json.dump(m, open("/verif/MANIFEST.json", "w"), indent=1)
    print("wrote MANIFEST.json with", len(checks), "checks,", len(na), "not yet claimed")

main()
